package main

import (
	"fmt"
	"strings"

	"github.com/IBM/fluent-forward-go/fluent/protocol"
)

func genFault(r *Rng, approxLen int) string {
	switch r.Intn(12) {
	case 0:
		return fmt.Sprintf("f%d", r.Intn(approxLen+1))
	case 1:
		return "f0"
	case 2:
		return fmt.Sprintf("s%d", r.Intn(approxLen+1))
	case 3:
		return fmt.Sprintf("f%d", []int{1, 2047, 2048, 2049, 4096}[r.Intn(5)])
	case 5:
		// a slow connection: the write takes 40 ms of the 50 ms timeout
		return "D40"
	case 4:
		// every Write on this connection takes at most k bytes and reports no error
		return fmt.Sprintf("S%d", []int{0, 1, 7, 64, 1000}[r.Intn(5)])
	}
	return "-"
}

// records whose maps have at most one key, so that the encoding does not depend on map iteration order
func genSmallRec(r *Rng, depth int, big bool) *Node {
	var v *Node
	switch r.Intn(6) {
	case 0:
		v = nInt(genInt(r))
	case 1:
		if depth > 0 {
			v = genSmallRec(r, depth-1, false)
		} else {
			v = nNil()
		}
	case 2:
		v = nArr(nStr(r.Bytes(r.Intn(5))), nUint(genUint(r)), nBool(r.Bool()))
	default:
		v = nStr(r.Bytes(r.Intn(40)))
	}
	if big {
		sz := []int{2000, 2040, 2048, 2100, 4096, 5000, 9000}[r.Intn(7)]
		v = nArr(nStr(r.Bytes(sz)), v)
	}
	if r.Chance(6) {
		// an unencodable leaf after the rest of the content
		v = nArr(v, &Node{K: KBad, W: r.Intn(3)})
	}
	if r.Chance(10) {
		return nMap()
	}
	return nMap(nStr([]byte([]string{"message", "k", "chunk"}[r.Intn(3)])), v)
}

func genSendTok(r *Rng) string {
	big := r.Chance(25)
	kind := []string{"MSG", "EXT", "FWD", "PFM", "RAWM"}[r.Intn(5)]
	if kind == "RAWM" {
		var b []byte
		switch r.Intn(8) {
		case 6: // as other implementations write a message without options: no fourth / third element at all
			switch r.Intn(6) {
			case 4, 5: // an option map whose chunk entry is the empty string: present, and empty
				b = nArr(nStr([]byte("raw")), nInt(7), nMap(), nMap(nStr([]byte("chunk")), nStr(nil))).Enc()
			case 0:
				b = nArr(nStr([]byte("raw")), nInt(7), nMap()).Enc()
			case 1:
				b = nArr(nStr([]byte("raw")), nExt(0, []byte{0, 0, 0, 7, 0, 0, 0, 0}), nMap(nStr([]byte("chunk")), nStr([]byte("decoy")))).Enc()
			case 2:
				b = nArr(nStr([]byte("raw")), nArr(nArr(nExt(0, []byte{0, 0, 0, 7, 0, 0, 0, 0}), nMap()))).Enc()
			default:
				b = nArr(nStr([]byte("raw")), nBin(nArr(nExt(0, []byte{0, 0, 0, 7, 0, 0, 0, 0}), nMap()).Enc())).Enc()
			}
		case 0: // a library-encoded message with a chunk
			m := &protocol.Message{Tag: "raw", Timestamp: 7, Record: map[string]interface{}{"chunk": "decoy"}, Options: &protocol.MessageOptions{Chunk: string(genChunkID(r))}}
			b, _ = m.MarshalMsg(nil)
		case 1: // as another implementation writes it: unsigned time
			b = nArr(nStr([]byte("raw")), nUint(1600000000), nMap(nStr([]byte("chunk")), nStr([]byte("decoy"))),
				nMap(nStr([]byte("chunk")), nStr(genChunkID(r)))).Enc()
		case 2: // no chunk
			b, _ = (&protocol.Message{Tag: "raw", Timestamp: 7, Record: map[string]interface{}{}}).MarshalMsg(nil)
		case 3:
			b = r.Bytes(1 + r.Intn(30))
		case 4: // a large pre-encoded message: longer than the stream writer's buffer
			sz := []int{1990, 2010, 2020, 2030, 2048, 2100, 4096, 4200, 9000}[r.Intn(9)]
			m := &protocol.Message{Tag: "raw", Timestamp: 7, Record: map[string]interface{}{"p": string(r.Bytes(sz))}}
			if r.Bool() {
				m.Options = &protocol.MessageOptions{Chunk: string(genChunkID(r))}
			}
			b, _ = m.MarshalMsg(nil)
		case 5:
			b = r.Bytes([]int{2047, 2048, 2049, 4096, 4097, 10243}[r.Intn(6)])
		default:
			b = nil
		}
		return "RAWM(" + hx(b) + ")"
	}
	a := &absMsg{kind: kind}
	a.tag = genTag(r, "quick")
	a.ts = genInt(r)
	a.t = genGoTime(r)
	a.opts = genGoOptions(r)
	if a.opts != nil && a.opts.Chunk == "" && r.Chance(40) {
		a.opts.Chunk = string(genChunkID(r))
	}
	switch kind {
	case "MSG", "EXT":
		a.rec = genSmallRec(r, 2, big)
	case "FWD":
		n := r.Intn(3)
		for i := 0; i < n; i++ {
			a.entries = append(a.entries, absEntry{t: genGoTime(r), rec: genSmallRec(r, 1, big && i == 0)})
		}
	case "PFM":
		sz := r.Intn(60)
		if big {
			sz = 2000 + r.Intn(5000)
		}
		a.stream = r.Bytes(sz)
	}
	return a.token(nil)
}

var respModes = []string{"match", "match", "match", "other", "prefix", "caseflip", "caseflip1", "padless", "spaced", "emptymap", "emptyack", "extrabefore", "extraafter", "garbage", "nonmap",
	"binack", "trunc", "trailing", "eof", "sil", "late", "late", "dupack", "dupack2", "extralong", "extraafter", "extralong",
	"extracut1", "extracut3", "extracut6", "extracut11", "extracut13", "extracut14"}
var pongModes = []string{"honest", "honest", "honest", "authfalse", "wrongkey", "wrongsalt", "wrongnonce", "wronghost", "reflect", "replay",
	"emptydigest", "truncdigest", "trunc", "garbage", "upper", "none", "sil"}
var heloModes = []string{"std", "std", "std", "std", "nilopts", "garbage", "trunc", "none", "arity3", "extra", "n=", "n=00ff"}

func genTcpOp(r *Rng, st *int) string {
	// st: rough phase, used only to bias towards meaningful flows
	switch r.Intn(14) {
	case 0:
		return fmt.Sprintf("CON(%s;%s)", []string{"ok", "ok", "ok", "fail"}[r.Intn(4)], renderBool(r.Chance(15)))
	case 1:
		return "DIS"
	case 2:
		return fmt.Sprintf("REC(%s;%s)", []string{"ok", "ok", "fail"}[r.Intn(3)], renderBool(r.Chance(15)))
	case 3, 4:
		f := "-"
		if r.Chance(10) {
			f = genFault(r, 100)
		}
		if r.Chance(45) {
			// half of the handshakes are honest ones, so that the operations after them run in transport phase
			return "HS(std;honest;-)"
		}
		hm := heloModes[r.Intn(len(heloModes))]
		if r.Chance(12) {
			// nonce lengths around the block sizes of the digest and of common scratch buffers
			hm = "n=" + hx(r.Bytes([]int{1, 15, 100, 111, 112, 128, 470, 480, 495, 496, 497, 512, 600, 3000}[r.Intn(14)]))
		}
		return fmt.Sprintf("HS(%s;%s;%s)", hm, pongModes[r.Intn(len(pongModes))], f)
	case 5:
		if r.Chance(6) {
			return "TPS" // … after a pause longer than the timeout
		}
		return "TP"
	case 6:
		sz := r.Intn(50)
		if r.Chance(20) {
			sz = []int{2047, 2048, 2049, 4096, 10243}[r.Intn(5)]
		}
		if r.Chance(4) {
			return "RAW(-;-)" // nothing to send: nothing may reach the wire
		}
		return fmt.Sprintf("RAW(%s;%s)", hx(r.Bytes(1+sz)), genFault(r, sz))
	case 7:
		return genHelperOp(r)
	default:
		resp := respModes[r.Intn(len(respModes))]
		if r.Chance(15) {
			resp = fmt.Sprintf("split%d", 1+r.Intn(30))
		} else if r.Chance(35) {
			// any response, delivered in two fragments
			resp = fmt.Sprintf("%s@%d", resp, 1+r.Intn(48))
		}
		return fmt.Sprintf("SND(%s;%s;%s)", genSendTok(r), resp, genFault(r, 3000))
	}
}

func genHelperOp(r *Rng) string {
	tag := hx(genTag(r, "quick"))
	ents := func() string {
		n := r.Intn(3)
		p := make([]string, n)
		for i := range p {
			p[i] = fmt.Sprintf("E(%s;%s)", tokInstant(genGoTime(r)), tokVal(genSmallRec(r, 1, false)))
		}
		return "L(" + strings.Join(p, ";") + ")"
	}
	switch r.Intn(7) {
	case 0:
		return fmt.Sprintf("HLP(SendMessage;%s;%s)", tag, tokVal(genSmallRec(r, 2, r.Chance(20))))
	case 1:
		return fmt.Sprintf("HLP(SendMessageExt;%s;%s)", tag, tokVal(genSmallRec(r, 2, r.Chance(20))))
	case 2:
		return fmt.Sprintf("HLP(SendForward;%s;%s)", tag, ents())
	case 3:
		return fmt.Sprintf("HLP(SendPacked;%s;%s)", tag, ents())
	case 4:
		return fmt.Sprintf("HLP(SendCompressed;%s;%s)", tag, ents())
	case 5:
		return fmt.Sprintf("HLP(SendPackedFromBytes;%s;%s)", tag, hx(r.Bytes(r.Intn(50))))
	default:
		return fmt.Sprintf("HLP(SendCompressedFromBytes;%s;%s)", tag, hx(r.Bytes(r.Intn(50))))
	}
}

func genCfg(r *Rng) string {
	key := "-"
	if r.Chance(55) {
		key = hx([]byte([]string{"secret", "k", "another shared key", ""}[r.Intn(4)]))
		if key == "-" {
			key = "e" // the empty key: configured (not nil), so a handshake is required
		}
	}
	host := []string{"client.example", "", "server.example", "h"}[r.Intn(4)]
	if r.Chance(6) {
		host = strings.Repeat("h", []int{64, 255, 480, 500, 1000}[r.Intn(5)])
	}
	if key != "-" && r.Chance(6) {
		key = hx(r.Bytes([]int{64, 128, 500, 1000}[r.Intn(4)]))
	}
	return fmt.Sprintf("CFG(%s;%s;%s;%s)", key, renderBool(r.Bool()), renderBool(r.Chance(85)), hx([]byte(host)))
}

// pfmOfSize: a PackedForward message (1-byte tag, no options) whose event stream is sz bytes long: its encoding is
// sz + 7 bytes, of which 6 come before the stream
func pfmOfSize(r *Rng, sz int) string {
	a := &absMsg{kind: "PFM", tag: []byte("t"), stream: r.Bytes(sz)}
	return a.token(nil)
}

// encoded sizes around the stream writer's 2 KiB buffer, every size in a window (independent of the seed)
var writerEdgeSizes = func() []int {
	var s []int
	for sz := 2030; sz <= 2062; sz++ {
		s = append(s, sz)
	}
	return append(s, 4089, 4090, 4096, 6137, 6138, 6144)
}()

func genTcp(o *Out, r *Rng, n int, tier string) {
	// every peer behaviour in the handshake once, followed by traffic (independent of the seed)
	for _, pm := range pongModes {
		o.emit("C05", "SEQ", "CFG("+hx([]byte("secret"))+";f;t;"+hx([]byte("client.example"))+")", "CON(ok;f)", "HS(std;"+pm+";-)",
			fmt.Sprintf("RAW(%s;-)", hx(r.Bytes(4))), "TP", fmt.Sprintf("SND(%s;match;-)", pfmOfSize(r, 20)))
	}
	for _, hm := range heloModes {
		o.emit("C05", "SEQ", "CFG("+hx([]byte("secret"))+";f;t;"+hx([]byte("client.example"))+")", "CON(ok;f)", "HS("+hm+";honest;-)",
			fmt.Sprintf("RAW(%s;-)", hx(r.Bytes(4))), "TP")
	}
	// many handshakes on one client (a fresh connection each), then a peer without the key that replays what it recorded: the
	// salts must all differ, so no recorded PONG fits
	for _, k := range []int{5, 9, 17, 33} {
		args := []string{"CFG(" + hx([]byte("secret")) + ";f;t;" + hx([]byte("client.example")) + ")", "CON(ok;f)"}
		for i := 0; i < k; i++ {
			args = append(args, "HS(std;honest;-)", "REC(ok;f)")
		}
		args = append(args, "HS(std;replay;-)", "TP")
		o.emit("C05", "SEQ", args...)
	}
	// a send that fails half-way — an unencodable value behind more than one writer buffer of content — followed by good sends on the
	// same client: nothing of the failed message may go out with them (seed-independent; with and without acks; Message and Forward)
	for _, ra := range []string{"t", "f"} {
		for _, kind := range []string{"MSG", "EXT", "FWD"} {
			for _, sz := range []int{1500, 3000, 9000} {
				bad := &absMsg{kind: kind, tag: []byte("bad"), ts: 7, t: genGoTime(r)}
				rec := nMap(nStr([]byte("k")), nArr(nStr(r.Bytes(sz)), &Node{K: KBad}))
				if kind == "FWD" {
					bad.entries = []absEntry{{t: genGoTime(r), rec: nMap(nStr([]byte("k")), nStr(r.Bytes(sz)))}, {t: genGoTime(r), rec: rec}}
				} else {
					bad.rec = rec
				}
				good := &absMsg{kind: kind, tag: []byte("good"), ts: 8, t: genGoTime(r), rec: nMap(nStr([]byte("k")), nStr([]byte("v")))}
				if kind == "FWD" {
					good.entries = []absEntry{{t: genGoTime(r), rec: nMap(nStr([]byte("k")), nStr([]byte("v")))}}
				}
				o.emit("C09", "SEQ", "CFG(-;"+ra+";t;"+hx([]byte("h"))+")", "CON(ok;f)", fmt.Sprintf("SND(%s;match;-)", bad.token(nil)),
					fmt.Sprintf("SND(%s;match;-)", good.token(nil)), fmt.Sprintf("RAW(%s;-)", hx(r.Bytes(3))), fmt.Sprintf("SND(%s;match;-)", good.token(nil)))
				// … and raw bytes right after the failed send
				o.emit("C02", "SEQ", "CFG(-;"+ra+";t;"+hx([]byte("h"))+")", "CON(ok;f)", fmt.Sprintf("SND(%s;match;-)", bad.token(nil)),
					fmt.Sprintf("RAW(%s;-)", hx(r.Bytes(5))), fmt.Sprintf("SND(%s;match;-)", good.token(nil)))
			}
		}
	}
	// the same through the helpers: a helper call whose record cannot be encoded (behind more than a writer buffer of content), then good
	// helper calls: what they put on the wire is exactly their own message
	for _, ra := range []string{"t", "f"} {
		for _, sz := range []int{1500, 3000, 9000} {
			badRec := tokVal(nMap(nStr([]byte("k")), nArr(nStr(r.Bytes(sz)), &Node{K: KBad})))
			goodRec := tokVal(nMap(nStr([]byte("k")), nStr([]byte("v"))))
			ent := func(rec string) string { return fmt.Sprintf("E(%s;%s)", tokInstant(genGoTime(r)), rec) }
			o.emit("C02", "SEQ", "CFG(-;"+ra+";t;"+hx([]byte("h"))+")", "CON(ok;f)",
				fmt.Sprintf("HLP(SendMessage;74;%s)", badRec), fmt.Sprintf("HLP(SendMessage;74;%s)", goodRec),
				fmt.Sprintf("HLP(SendMessageExt;74;%s)", badRec), fmt.Sprintf("HLP(SendMessageExt;74;%s)", goodRec),
				fmt.Sprintf("HLP(SendForward;74;L(%s;%s))", ent(goodRec), ent(badRec)), fmt.Sprintf("HLP(SendForward;74;L(%s))", ent(goodRec)),
				fmt.Sprintf("HLP(SendPacked;74;L(%s;%s))", ent(goodRec), ent(badRec)), fmt.Sprintf("HLP(SendPacked;74;L(%s))", ent(goodRec)))
		}
	}
	// acks that arrive in two fragments, split at every position of a typical ack, each followed by another acknowledged send
	for _, k := range []int{1, 2, 3, 4, 5, 6, 8, 13, 20, 29, 30, 31} {
		o.emit("C08", "SEQ", "CFG(-;t;t;"+hx([]byte("h"))+")", "CON(ok;f)", fmt.Sprintf("SND(%s;match@%d;-)", pfmOfSize(r, 20), k),
			fmt.Sprintf("SND(%s;match;-)", pfmOfSize(r, 21)), fmt.Sprintf("SND(%s;extraafter@%d;-)", pfmOfSize(r, 22), k), fmt.Sprintf("SND(%s;match;-)", pfmOfSize(r, 23)))
	}
	// a peer whose ack comes after the read deadline: the send fails, its message is on the wire once, the late ack is left for the next reader
	for _, ra := range []string{"t", "f"} {
		o.emit("C08", "SEQ", "CFG(-;"+ra+";t;"+hx([]byte("h"))+")", "CON(ok;f)", fmt.Sprintf("SND(%s;late;-)", pfmOfSize(r, 30)), "TP",
			fmt.Sprintf("SND(%s;match;-)", pfmOfSize(r, 31)), fmt.Sprintf("SND(%s;late;-)", pfmOfSize(r, 3000)))
	}
	for _, sz := range writerEdgeSizes {
		o.emit("C09", "SEQ", "CFG(-;f;t;"+hx([]byte("h"))+")", "CON(ok;f)", fmt.Sprintf("SND(%s;match;-)", pfmOfSize(r, sz)), fmt.Sprintf("RAW(%s;-)", hx(r.Bytes(3))))
	}
	for i := 0; i < n; i++ {
		args := []string{genCfg(r)}
		ln := 2 + r.Intn(9)
		st := 0
		// most sequences start with the ordinary opening so that the later operations are reached
		if r.Chance(70) {
			// every fourth opening connection will report an error from Close
			args = append(args, fmt.Sprintf("CON(ok;%s)", renderBool(r.Chance(25))))
			if !strings.HasPrefix(args[0], "CFG(-") && r.Chance(80) {
				args = append(args, "HS(std;honest;-)")
				if r.Chance(25) {
					// lifecycle step right after a good handshake, then traffic
					args = append(args, []string{"REC(ok;f)", "REC(ok;t)", "DIS", "REC(fail;f)"}[r.Intn(4)])
					args = append(args, fmt.Sprintf("RAW(%s;-)", hx(r.Bytes(1+r.Intn(8)))))
				}
			}
		}
		var sends []string
		if r.Chance(12) {
			// a retry: the same message, with the same chunk id, sent again and answered differently
			tok := genSendTok(r)
			first := []string{"match", "match", "extraafter", "trailing", "trunc", "other"}[r.Intn(6)]
			a := fmt.Sprintf("SND(%s;%s;-)", tok, first)
			sends = append(sends, a)
			args = append(args, a)
			for k := 1 + r.Intn(2); k > 0; k-- {
				second := respModes[r.Intn(len(respModes))]
				if r.Chance(40) {
					// responses that are maps but say nothing about this chunk
					second = []string{"emptymap", "emptymap", "emptyack", "extrabefore", "other"}[r.Intn(5)]
				}
				args = append(args, fmt.Sprintf("SND(%s;%s;-)", tok, second))
			}
		}
		if r.Chance(8) {
			// the same helper twice in a row (two messages, two chunk ids when acks are on)
			tag := hx(genTag(r, "quick"))
			h := []string{"SendCompressedFromBytes", "SendPackedFromBytes", "SendCompressed", "SendPacked", "SendMessage"}[r.Intn(5)]
			for k := 0; k < 2+r.Intn(2); k++ {
				switch h {
				case "SendCompressedFromBytes", "SendPackedFromBytes":
					args = append(args, fmt.Sprintf("HLP(%s;%s;%s)", h, tag, hx(r.Bytes(1+r.Intn(40)))))
				case "SendMessage":
					args = append(args, fmt.Sprintf("HLP(%s;%s;%s)", h, tag, tokVal(genSmallRec(r, 1, false))))
				default:
					args = append(args, fmt.Sprintf("HLP(%s;%s;L(E(%s;%s)))", h, tag, tokInstant(genGoTime(r)), tokVal(nMap(nStr([]byte("k")), nStr(r.Bytes(1+r.Intn(20)))))))
				}
			}
		}
		if r.Chance(8) {
			// a packed helper call that fails on an unencodable record after a good entry, then a good one
			tag := hx(genTag(r, "quick"))
			good := func() string {
				return fmt.Sprintf("E(%s;%s)", tokInstant(genGoTime(r)), tokVal(nMap(nStr([]byte("k")), nStr(r.Bytes(1+r.Intn(20))))))
			}
			badE := fmt.Sprintf("E(%s;%s)", tokInstant(genGoTime(r)), tokVal(nMap(nStr([]byte("k")), &Node{K: KBad, W: r.Intn(3)})))
			h := []string{"SendPacked", "SendCompressed"}
			args = append(args, fmt.Sprintf("HLP(%s;%s;L(%s;%s))", h[r.Intn(2)], tag, good(), badE))
			args = append(args, fmt.Sprintf("HLP(%s;%s;L(%s))", h[r.Intn(2)], tag, good()))
		}
		for j := 0; j < ln; j++ {
			a := genTcpOp(r, &st)
			if strings.HasPrefix(a, "SND(") {
				if len(sends) > 0 && r.Chance(30) {
					// the same message (and chunk id) again, possibly answered differently
					prev := sends[r.Intn(len(sends))]
					tok := prev[4:strings.LastIndex(prev[:strings.LastIndex(prev, ";")], ";")]
					resp := respModes[r.Intn(len(respModes))]
					a = fmt.Sprintf("SND(%s;%s;-)", tok, resp)
				}
				sends = append(sends, a)
			}
			args = append(args, a)
		}
		o.emit("C06", "SEQ", args...)
	}
}
