"""Per-property configuration of bin/check: which Lean modules/theorems are the obligations, which
harness suites form the correspondence, what counts as a non-trivial case."""

TRUSTED_BASE = [
    "Lean 4.33.0 kernel (leanchecker re-check in the thorough tier); axioms allowed: propext, Classical.choice, Quot.sound",
    "Lean compiler/runtime executing fvdriver (built from the same definitions the theorems are about)",
    "Go harness /verif/harness (mocks, generators, canonical rendering) and bin/check (orchestration, verdict)",
    "modelled, not verified: tinylib/msgp v1.1.9 primitives, Go runtime/stdlib (time, sync, bytes, gzip, sha512, rand), gorilla/websocket via ext.Conn",
]

PROPS = {}

PROPS['C19'] = dict(
    lean_modules=['FluentVerif.Props.C19'],
    theorems=['FV.C19_roundtrip', 'FV.C19_zone', 'FV.C19_length', 'FV.C19_payload', 'FV.C19_order'],
    suites=[dict(suite='et', n=dict(quick=4000, thorough=400000), shards=dict(quick=1, thorough=16),
                 trivial=r'^(et\.out|-)$')],
    rule="ET: boundary grid (13 seconds x 11 nanoseconds) + random (sec, nsec, zone) triples; ETD: random/"
         "structured 8-byte payloads and wrong lengths. distinct = distinct (op,args); non-trivial = instant "
         "inside the 32-bit-second domain (ET) or any payload (ETD)",
    explanation="Theorems C19_roundtrip/zone/length/payload/order are proved for all instants/payloads over encodeET/"
                "decodeET; the correspondence runs EventTime.MarshalBinaryTo/UnmarshalBinary of the working tree "
                "on the same inputs and compares bytes / decoded instants with the model.",
    assumptions=["time.Time.Unix/Nanosecond/UTC and time.Unix normalisation as documented (modelled)"],
)

PROPS['C20'] = dict(
    lean_modules=['FluentVerif.Props.C20'],
    theorems=['FV.Equal.C20_iff', 'FV.Equal.C20_refl', 'FV.Equal.C20_symm', 'FV.Equal.C20_legacy_excluded'],
    suites=[dict(suite='eq', n=dict(quick=1500, thorough=40000), shards=dict(quick=1, thorough=8),
                 trivial=r'^(eq\.0\..*|-)$')],
    rule="exhaustive: all 14641 ordered pairs of lists of length 0..4 over 3 distinct entries; plus random lists "
         "(length 0..11, up to 5 instants x 6 record shapes) against shuffles / multiplicity changes / "
         "replacements / drops. distinct = distinct (op,args); non-trivial = first list non-empty",
    explanation="C20_iff: equal l1 l2 = true <-> List.Perm l1 l2 for all lists over any type with decidable "
                "equality; the model mirrors the Go loops (used-marks, match counter, length tests). "
                "Correspondence: EntryList.Equal of the working tree vs the model, and vs an independent "
                "multiset oracle, on every generated pair.",
    assumptions=["entries are abstracted to (instant, record-class): harness records of one class are deeply equal, "
                 "of different classes not (NaN-bearing records excluded)"],
)

_CODEC_RULE = ("codec suite: per case a message of one of 13 types is produced (v) by the library's own encoder from a "
               "caller-built value, (a) by an independent encoder from the specification with random legal widths / key "
               "orders / unknown option keys / ext records, (c) as a concatenation, or (m) by mutation (truncation, bit "
               "flip, insert/delete, arity and count tampering, retagging, random bytes); each input is decoded by "
               "UnmarshalMsg and DecodeMsg into fresh and used receivers. distinct = distinct (op,args); non-trivial = "
               "the real decoder returned ok, or the input is a mutation (error paths count once per distinct input)")
_CODEC_ASSUME = ["tinylib/msgp read primitives as modelled in lean/FluentVerif/Msgp/Read.lean (validated by this correspondence only)",
                 "stream path exercised over a non-seekable reader (a network connection); inputs declaring 32-bit lengths/counts "
                 "beyond the input are run in a child process (slice path) or skipped (stream path)"]
_CODEC_SUITE = dict(suite='codec', n=dict(quick=3000, thorough=4000), shards=dict(quick=1, thorough=16),
                    trivial=r'^(-|.*\.skip)$')

PROPS['C13'] = dict(
    lean_modules=['FluentVerif.Props.C13'],
    theorems=['FV.C13_Message', 'FV.C13_MessageExt', 'FV.C13_Forward', 'FV.C13_Packed', 'FV.C13_Entry', 'FV.C13_EntryExt',
              'FV.C13_EntryList', 'FV.C13_Options', 'FV.C13_Ack', 'FV.C13_Helo', 'FV.C13_HeloOpts', 'FV.C13_Ping', 'FV.C13_Pong',
              'FV.C13_arity_Message', 'FV.C13_arity_MessageExt', 'FV.C13_arity_Forward', 'FV.C13_arity_Packed', 'FV.C13_sequence'],
    suites=[_CODEC_SUITE],
    rule=_CODEC_RULE,
    explanation="C13_T: T.unmarshal p recv b = ok v r -> exists o, parse b = some (o, r), for every input, receiver and path "
                "(parse = the specification parser, sharing no code with the decoder models); C13_arity_T: foreign counts are "
                "rejected; C13_sequence: n successive decodes consume exactly n values. Correspondence: the model's result "
                "(class, bytes consumed, decoded value) equals the real decoder's on every generated line; the oracle "
                "compares the real decoder's consumed count with the parser's object boundary.",
    assumptions=_CODEC_ASSUME,
)

PROPS['C18'] = dict(
    lean_modules=['FluentVerif.Props.C18'],
    theorems=['FV.C18_Message', 'FV.C18_MessageExt', 'FV.C18_Forward', 'FV.C18_Packed', 'FV.C18_Entry', 'FV.C18_EntryExt',
              'FV.C18_legacy_witness'],
    suites=[_CODEC_SUITE],
    rule=_CODEC_RULE + "; for C18 the relevant lines are those with a used receiver (recv = U<bytes decoded first>)",
    explanation="C18_T: T.unmarshal p recv b = T.unmarshal p {} b for every receiver, path and input. Correspondence as for "
                "C13; the oracle compares the real decoder's result for a used receiver with its result for a fresh one. "
                "Scope: the Forward-mode messages and entries; the msgp-generated map decoders (MessageOptions, HeloOpts, "
                "AckMessage) merge into the receiver by msgp's design and are outside the property's anchors.",
    assumptions=_CODEC_ASSUME,
)

NOT_APPLICABLE = {}
HOOK_COMMITS = ['cdfb811', 'ae3a54c']

_RT_RULE = ("rt suite: a caller-built value of one of 13 message kinds (tags of every length class, int64 edge "
            "timestamps, EventTimes in the 32-bit domain in several zones, type-directed records: every int/uint "
            "width, float specials, strings/binaries at length-class boundaries, nested maps/arrays, occasionally an "
            "unencodable leaf; options nil/empty/every subset) is encoded by MarshalMsg (onto a non-empty prefix) "
            "and by msgp.Encode through a Writer, and each encoding is decoded by UnmarshalMsg and DecodeMsg: 4 "
            "lines per value. distinct = distinct (op,args); non-trivial = every executed line")
_RT_SUITE = dict(suite='rt', n=dict(quick=1500, thorough=4000), shards=dict(quick=1, thorough=16), trivial=r'^-$')

PROPS['C01'] = dict(
    lean_modules=['FluentVerif.Props.C01'],
    theorems=['FV.C01_Message', 'FV.C01_MessageExt', 'FV.C01_Forward', 'FV.C01_Packed', 'FV.C01_Entry', 'FV.C01_EntryExt',
              'FV.C01_Options', 'FV.C01_Ack', 'FV.C01_HeloOpts', 'FV.C01_Helo', 'FV.C01_Ping', 'FV.C01_Pong',
              'FV.C01_alt_record', 'FV.C01_concat_Message', 'FV.C01_alt_Message', 'FV.C01_alt_MessageExt', 'FV.C01_alt_Forward',
              'FV.C01_alt_Packed', 'FV.C01_alt_Options', 'FV.C01_alt_Ack', 'FV.C01_alt_Helo', 'FV.C01_alt_Ping', 'FV.C01_alt_Pong',
              'FV.parse_inv', 'FV.classify_imm_nil_all', 'FV.readFields_complete'],
    suites=[_RT_SUITE, _CODEC_SUITE],
    rule=_RT_RULE + ' || ' + _CODEC_RULE,
    explanation="C01_T: for every representable message, T.unmarshal p recv (T.marshal m ++ x) = ok (norm m) x for both "
                "decoder paths, every receiver and every trailing x; C01_alt_record: every legal encoding of a plain record "
                "decodes to the object the specification parser finds; C01_alt_Message / MessageExt / Forward / Packed / Options: "
                "whatever conforming encoding the specification parser finds for a mode (time as any integer width or any ext "
                "format, options in any order with unknown keys of any shape and repeated keys, nil options), the decoder returns "
                "exactly that message on both paths into any receiver; C01_concat. Correspondence (rt): the encoder model "
                "equals the bytes of both real encoder paths, the decoder model equals both real decoders, and the oracle "
                "checks that the real round trip returns the original value with nothing left and that MarshalMsg only "
                "appends; (codec, class a): alternative legal encodings from an independent encoder decode as the model says.",
    assumptions=_CODEC_ASSUME + ["Go map iteration order is recovered from the observed bytes; theorems hold for every order",
                                 "classify_imm_nil_all is a `decide +kernel` over the finite table of the 256 lead bytes (kernel evaluation, no extra axiom)"],
)

PROPS['C02'] = dict(
    lean_modules=['FluentVerif.Props.C02'],
    theorems=['FV.C02_Message', 'FV.C02_MessageExt', 'FV.C02_Forward', 'FV.C02_Packed', 'FV.C02_packed_stream', 'FV.C02_options',
              'FV.C02_ack', 'FV.C02_helo', 'FV.C02_ping', 'FV.C02_pong', 'FV.C02_eventtime',
              'FV.C02_SendMessage', 'FV.C02_SendMessageExt', 'FV.C02_SendForward', 'FV.C02_SendPacked', 'FV.C02_SendCompressed',
              'FV.C02_SendPackedFromBytes', 'FV.C02_SendCompressedFromBytes', 'FV.Helper.wire_eq_wireG'],
    suites=[_RT_SUITE],   # + the tcp suite, added below once it is defined
    rule=_RT_RULE,
    explanation="C02_T: the bytes the encoder model emits are exactly one msgpack value that satisfies the Forward v1 grammar "
                "predicate for its mode (specification parser + grammar in Forward/Spec.lean, sharing nothing with the "
                "encoder models). Correspondence (rt): the real bytes of both encoder paths equal the model's, and the "
                "grammar oracle (incl. 'every type-0 extension is a fixext8') is evaluated on the real bytes. Helpers: "
                "C02_Send* — each Send* helper of the client puts exactly the mode it names on the wire (Message with the second of "
                "the call, MessageExt with its instant, Forward / PackedForward with exactly the entries and size, "
                "CompressedPackedForward with compressed=gzip and a bin that gunzips to the packed entries), options = the "
                "constructor's plus the chunk id iff acks are required. Correspondence (tcp suite): the bytes the mock connection "
                "accepted from every successful helper call equal Helper.wireG for the clock reading and chunk id found in them "
                "(stamp within [t0, t0+2] s; compressed payload gunzipped by the harness); RawMessage / SendRaw bytes verbatim at "
                "sizes around and above the 2 KiB writer buffer.",
    assumptions=_CODEC_ASSUME,
)

_CHUNK_SUITE = dict(suite='chunk', n=dict(quick=4000, thorough=12000), shards=dict(quick=1, thorough=16), trivial=r'^(-|chunk\.m\.other\..*)$')

PROPS['C11'] = dict(
    lean_modules=['FluentVerif.Props.C11'],
    theorems=['FV.C11_agree', 'FV.C11_ext32_witness', 'FV.C11_legacy_witness', 'FV.getChunkKeys_agrees', 'FV.hasExt32_arr', 'FV.hasExt32_map',
              'FV.ext32F_fuel', 'FV.skipP_eq_skip'],
    suites=[_CHUNK_SUITE],
    rule="chunk suite: (v) library encodings of the four modes with and without an assigned chunk, (a) messages of the four "
         "modes with 2/3/4 elements built by the independent encoder: timestamps in every signed/unsigned width, fixext8 and "
         "ext8 EventTime, every string/array/map header class, option maps with chunk (str or bin) at any position among "
         "known and unknown keys of any value type, records and entries with nested data and decoy chunk keys, options "
         "absent / nil, (m) mutations. distinct = distinct (op,args); non-trivial = the input is a well-formed mode message "
         "(judged by the specification parser) or was produced by the library",
    explanation="C11_agree (partial: hypothesis hasExt32 b = false): for every byte string the specification parser reads as a "
                "well-formed message of any of the four modes (any legal encoding of any field, arbitrary record content) that has "
                "no token in the ext32 format, getChunk returns exactly the chunk of the option map and errs exactly when there is "
                "none. C11_ext32_witness: the hypothesis cannot be dropped — a well-formed Message with an ext32 EventTime and "
                "options {chunk: abc} on which getChunk errs (the model has msgp's stream-Skip failure on ext32: Msgp/Ext32.lean); "
                "the same bytes are replayed on the real GetChunk (corpus): open known finding C11-ext32-skip. Correspondence: protocol.GetChunk and RawMessage.Chunk of "
                "the working tree equal the model on every line; the oracle compares them with Spec.chunkOf.",
    assumptions=_CODEC_ASSUME + ["well-formed = non-empty string option keys, no key twice (GetChunk returns the first, full decoding the last)",
                                 "msgp's stream Skip fails on ext32 values whenever five or more bytes are buffered: modelled as 'the skipped "
                                 "value holds an ext32 token' (hasExt32), exact while the message sits in the reader's 4 KiB buffer; inputs "
                                 "above 4000 bytes that contain an ext32 token are not compared with the model"],
)

PROPS['C10'] = dict(
    lean_modules=['FluentVerif.Props.C10'],
    theorems=['FV.C10_noPanic_Message', 'FV.C10_noPanic_MessageExt', 'FV.C10_noPanic_Forward', 'FV.C10_noPanic_Packed',
              'FV.C10_noPanic_Entry', 'FV.C10_noPanic_EntryExt', 'FV.C10_noPanic_EntryList', 'FV.C10_noPanic_Options',
              'FV.C10_noPanic_Ack', 'FV.C10_noPanic_Helo', 'FV.C10_noPanic_HeloOpts', 'FV.C10_noPanic_Ping', 'FV.C10_noPanic_Pong',
              'FV.C10_noPanic_getChunk', 'FV.C10_eventTime_total', 'FV.prefix_rejected', 'FV.C10_prefix_Message',
              'FV.C10_prefix_MessageExt', 'FV.C10_prefix_Forward', 'FV.C10_prefix_Packed', 'FV.C10_prefix_Helo',
              'FV.C10_prefix_Pong', 'FV.C10_prefix_Ping', 'FV.C10_prefix_Ack'],
    suites=[_CODEC_SUITE, _CHUNK_SUITE],
    rule=_CODEC_RULE + " || chunk suite (GetChunk on valid, alternative and mutated inputs)",
    explanation="C10_noPanic_T / C10_prefix_T: every decoder model returns a value or an error on every byte string, never "
                "panic; termination is structural; each message decoder rejects every strict prefix of an input it accepts in "
                "full. Correspondence: the real decoders' outcome class / consumed bytes / value equal the model's on valid, "
                "alternative and mutated inputs (watchdog 20 s, recover, child process under an address-space limit for "
                "inputs that declare huge counts).",
    assumptions=_CODEC_ASSUME + ["non-termination and fatal out-of-memory cannot be exhibited by a theorem: the model excludes them by "
                                 "construction and the harness watchdog / memory limit is the supporting check",
                                 "client read paths (HELO/PONG/ack bytes) are covered by the client model, see C05/C04"],
)

PROPS['C12'] = dict(
    lean_modules=['FluentVerif.Props.C12'],
    theorems=['FV.b64dec_enc', 'FV.C12_injective', 'FV.C12_assign', 'FV.C12_stable', 'FV.C12_idempotent',
              'FV.C12_carried_Message', 'FV.C12_carried_MessageExt', 'FV.C12_carried_Forward', 'FV.C12_carried_Packed'],
    suites=[dict(suite='cid', n=dict(quick=2000, thorough=40000), shards=dict(quick=1, thorough=8), trivial=r'^-$')],
    rule="cid suite: for each of the four message types with options nil / empty / size-only / caller-supplied chunk: "
         "Chunk() twice, then MarshalMsg, msgp.Encode and GetChunk; plus a concurrent stress (16 goroutines x 2000 ids quick, "
         "x 40000 thorough) counting duplicates and malformed ids. distinct = distinct (op,args) and, for generated ids, "
         "distinct ids; non-trivial = every line",
    explanation="b64dec_enc (base64 decode inverts encode for every length) gives C12_injective: two ids coincide iff the two "
                "16-byte draws coincide on the 122 unmasked bits; C12_assign / C12_stable / C12_idempotent describe Chunk() "
                "for every option state; C12_carried_T: the option map the specification parser reads back from the encoder "
                "holds exactly the returned id. Correspondence: the draw is recovered from the real id by the driver's base64 "
                "decoder, checked for UUIDv4 shape, and chunkCall on it must reproduce the real id and options.",
    assumptions=["distinctness of ids reduces to distinctness of crypto/rand draws (google/uuid random pool, mutex-protected): "
                 "assumed, supported by the concurrent duplicate count",
                 "uuid.New / base64.StdEncoding as modelled"],
)

_PACKED_RULE = ("packed suite: histories of 3..10 constructor / packer calls in one process with GOMAXPROCS(1) and GC off so that "
                "pooled buffers and compressors really are reused; pools primed with dirty buffers and with compressors left "
                "zero / closed / mid-member / with junk; every returned message or slice and every argument is snapshotted and "
                "re-compared after every later call; compressed streams are decompressed by compress/gzip with Multistream(false) "
                "and an exact-EOF check. packedconc: 8 goroutines x 200 packed/compressed messages built concurrently and "
                "re-verified at the end. distinct = distinct (op,args); non-trivial = constructor / packer lines")
_PACKED_SUITES = [dict(suite='packed', n=dict(quick=250, thorough=600), shards=dict(quick=1, thorough=16), trivial=r'^(-|hist\.(HRESET|PRIME)\..*)$'),
                  dict(suite='packedconc', n=dict(quick=3, thorough=40), shards=dict(quick=1, thorough=4), trivial=r'^-$')]

PROPS['C03'] = dict(
    lean_modules=['FluentVerif.Props.C03'],
    theorems=['FV.C03_packed', 'FV.C03_compressed_fromBytes', 'FV.C03_compressed', 'FV.C03_history_independent',
              'FV.unmarshalPackedF_marshal'],
    suites=_PACKED_SUITES,
    rule=_PACKED_RULE,
    explanation="C03_packed: the stream is, for the specification parser, exactly the entries one after another, size = number of "
                "entries, UnmarshalPacked returns the list; C03_compressed[_fromBytes]: for every prior state of the recycled "
                "compressor the message carries one complete member that decompresses to the uncompressed variant's bytes / the "
                "caller's bytes, with nothing after it, flagged gzip. Correspondence: functional results of the real "
                "constructors equal the model on every history line; gzip members are checked with the standard library.",
    assumptions=["gzip is an abstract codec (gunzipOne (member p ++ rest) = (p, rest)); gzip.Writer.Reset discards all prior state (stdlib)",
                 "sync.Pool hands an object to one caller at a time (stdlib)"] + _CODEC_ASSUME[:1],
)

PROPS['C07'] = dict(
    lean_modules=['FluentVerif.Props.C07'],
    theorems=['FV.Heap.inv_step', 'FV.Heap.C07_stable', 'FV.Heap.C07_returned_unchanged', 'FV.Heap.C07_args_unchanged',
              'FV.Heap.C07_legacy_witness'],
    suites=_PACKED_SUITES + [_RT_SUITE, _CHUNK_SUITE],
    rule=_PACKED_RULE + " || rt suite (a deep snapshot of the caller's message incl. timestamp zones is compared before/after every "
         "encode) || chunk suite (the string GetChunk returned is re-read after two later GetChunk calls)",
    explanation="Heap model with one owner per storage location (pooled / in flight for goroutine t / returned / argument); "
                "C07_stable: for every schedule of get / write / return-a-copy / put steps of any number of goroutines and any "
                "pool choices, every returned value and every argument still reads as at return / call. The model's claim that "
                "results are copies and that writes go only to storage taken from a pool is tied behaviourally: snapshots of "
                "every returned value and argument are re-compared after every later call under forced pool reuse, plus a "
                "concurrent build-and-verify run.",
    assumptions=["aliasing is visible to the tie only through behaviour (hence forced reuse and primed pools)",
                 "Send paths: covered with the client model (sending one message never alters another)"],
)

_TCP_RULE = ("tcp suite: operation sequences (2..13 ops) on client.Client over a scripted factory and scripted connections: "
             "Connect / Disconnect / Reconnect with dial and close failures, Handshake against 12 HELO shapes x 17 peer behaviours "
             "(honest, auth_result=false, digest under other key / salt / nonce / hostname, replay of an earlier PONG, reflection of "
             "the client's PING, empty / truncated / upper-cased digest, truncated, garbage, EOF, silence), Send of every message "
             "kind incl. RawMessage and messages larger than the 2 KiB writer buffer and records with an unencodable leaf, 16 ack "
             "behaviours incl. the matching ack split at every offset, write faults (fail after n bytes, short write) at boundary "
             "and random offsets, SendRaw, the seven Send* helpers; with/without shared key, RequireAck, timeout; several "
             "hostnames. Every mock call is logged. distinct = distinct (cfg, op list); non-trivial = every sequence")
_TCP_SUITE = dict(suite='tcp', n=dict(quick=1500, thorough=8000), shards=dict(quick=1, thorough=16), trivial=r'^-$')
_TCP_ASSUME = ["msgp.Reader presents the connection as a byte stream: results depend on the concatenation of what the peer delivers (modelled)",
               "SHA-512 is an uninterpreted function H, instantiated in the driver by digests the harness computes with crypto/sha512",
               "crypto/rand salts are fresh (assumed; length 16 checked on every observed PING)"]

PROPS['C06'] = dict(
    lean_modules=['FluentVerif.Props.C06'],
    theorems=['FV.Tcp.inv_step', 'FV.Tcp.C06_inv_run', 'FV.Tcp.C06_send_needs_transport', 'FV.Tcp.C06_sendRaw_needs_transport',
              'FV.Tcp.C06_connect_not_transport', 'FV.Tcp.C06_no_session_after', 'FV.Tcp.C06_writes', 'FV.Tcp.C14_one_open',
              'FV.Tcp.C14_connect_active', 'FV.Tcp.C14_no_panic'],
    suites=[_TCP_SUITE],
    rule=_TCP_RULE,
    explanation="C06_inv_run: for every operation sequence the event log is well ordered (no write/deadline/close on a connection "
                "that is not open) and exactly the session's connection is open; C06_writes: the only steps that write are "
                "Handshake (one write, the PING, on the current session) and Send/SendRaw in transport phase; "
                "C06_send[_Raw]_needs_transport: otherwise error and no event. Correspondence: per operation, the model's result "
                "and event list equal the real client's; oracles on the real event log (writes only inside a live authenticated "
                "session, nothing after close).",
    assumptions=_TCP_ASSUME,
)

PROPS['C09'] = dict(
    lean_modules=['FluentVerif.Props.C09'],
    theorems=['FV.Tcp.C09_ok_all', 'FV.Tcp.C09_prefix', 'FV.Tcp.C09_fault_err', 'FV.Tcp.C09_fault_cases', 'FV.Tcp.C09_unencodable',
              'FV.Tcp.C09_ack_failure', 'FV.Tcp.C09_raw'],
    suites=[_TCP_SUITE],
    rule=_TCP_RULE,
    explanation="C09_ok_all / C09_prefix / C09_fault_err / C09_unencodable / C09_ack_failure for every message, configuration and "
                "fault: success => the whole encoding was accepted; accepted bytes are a prefix of the encoding; failed or short "
                "write => error; unencodable => error and nothing written. Correspondence: per operation result + event list; "
                "oracles compare the bytes the mock accepted with the model's encoding. Websocket client half: see C17.",
    assumptions=_TCP_ASSUME,
)

PROPS['C02']['suites'] = [_RT_SUITE, _TCP_SUITE]
PROPS['C02']['rule'] = _RT_RULE + ' || ' + _TCP_RULE
PROPS['C02']['assumptions'] = PROPS['C02']['assumptions'] + _TCP_ASSUME

PROPS['C04'] = dict(
    lean_modules=['FluentVerif.Props.C04'],
    theorems=['FV.Tcp.C04_success_iff', 'FV.Tcp.C04_bad_response', 'FV.Tcp.C04_deadline_armed', 'FV.Tcp.C04_chunk_on_wire',
              'FV.Tcp.C04_sequences', 'FV.Tcp.C04_conforming_ack', 'FV.Tcp.C04_empty_id_witness', 'FV.Tcp.C04_success_nonempty'],
    suites=[_TCP_SUITE],
    rule=_TCP_RULE,
    explanation="C04_conforming_ack: a map with string keys the specification parser finds at the front of the response, in any legal "
                "msgpack form with further entries of any shape, whose last ack entry is the chunk => Send = ok. "
                "C04_success_iff: with acks required, Send = ok iff every byte was accepted and the response starts with a map the "
                "ack decoder accepts whose ack equals the chunk; C04_chunk_on_wire (via C12): that chunk is the one the "
                "specification parser finds in the bytes on the wire; C04_deadline_armed: a deadline is set between the write "
                "and the read. Oracle on the real run: Send=ok iff the spec-level ack of the response equals the spec-level "
                "chunk of the written bytes; deadline event present; no read that would block for ever.",
    assumptions=_TCP_ASSUME + ["the wall-clock bound (timeout + slack) is a runtime property: the model proves a deadline is armed; "
                               "the mock reports any read that would block without one"],
)

PROPS['C05'] = dict(
    lean_modules=['FluentVerif.Props.C05', 'FluentVerif.Props.C05Sym'],
    theorems=['FV.Tcp.C05_accept_iff', 'FV.Tcp.C05_ok_iff', 'FV.Tcp.C05_ping', 'FV.Tcp.C05_server_accepts_ping',
              'FV.Tcp.C05_other_key_rejects', 'FV.Tcp.C05_honest_pong_accepted', 'FV.Tcp.C05_validatePong_iff',
              'FV.Tcp.C05_honest_handshake', 'FV.Tcp.C05_reflection_accepted', 'FV.Dy.derivable_synth', 'FV.Dy.C05_sym_partial',
              'FV.Dy.C05_reflection_witness', 'FV.Dy.C05_sym_if_own_hostname_refused'],
    suites=[_TCP_SUITE],
    rule=_TCP_RULE,
    explanation="Byte level: C05_accept_iff — transport phase after Handshake iff HELO decodes with options, the PING was accepted, "
                "the PONG decodes, says auth_result=true and carries hex(H(salt||server_hostname||nonce||key)) for this salt and "
                "nonce. Symbolic level (Dolev-Yao): C05_sym_partial — whatever a keyless peer derives from all PINGs so far and "
                "all earlier honest PONGs, an accepted digest forces host = the client's own hostname (reflection only); "
                "C05_reflection_witness proves the reflection is derivable, i.e. the full statement is false of the protocol as "
                "implemented: open known finding C05-reflection. Oracle on real runs: success only with the proof condition and "
                "only from a peer behaviour that used the key.",
    assumptions=_TCP_ASSUME + ["concatenation ambiguity of salt||hostname||nonce||key is inherent to the protocol and outside the symbolic model"],
)

_CONC_RULE = ("conc suite: real goroutines on client.Client over a connection mock whose Write is not atomic (accepts the bytes in "
              "three pieces and yields in between): sendmix (4 goroutines x 12 sends of 1..9 KiB, no ack), sendack (with acks; the "
              "peer acknowledges every complete message), hsmix (senders with ack while another goroutine runs Handshake and "
              "TransportPhase), lifecycle (6 goroutines x 200 random Connect/Disconnect/Reconnect/TransportPhase/Send), hsrace "
              "(honest handshakes while others poll TransportPhase), helpermix (SendMessage / SendForward / SendPackedFromBytes / SendRaw "
              "and list-bearing records from 4 goroutines, payloads 40 B .. 140 KB around 2 KiB / 4 KiB / 64 KiB), hsrec (a Reconnect "
              "arrives while a handshake waits for its PONG: transport phase only on a connection that saw a PING); judged on the recorded wire (a concatenation of complete, "
              "unmixed encodings, every successful send exactly once), on dial/close accounting and under the race detector. "
              "distinct = distinct (scenario, seed); non-trivial = every run")
_CONC_SUITE = dict(suite='conc', n=dict(quick=14, thorough=280), shards=dict(quick=1, thorough=8), trivial=r'^-$')
_CONC_ASSUME = ["the translator is trusted for the shape of the control-flow graph (which statements are lock operations, accesses, calls; "
                "their order and branching); its lockset annotations are not trusted: FV.Lk.check re-validates them in the kernel",
                "sync.Mutex / sync.RWMutex: standard exclusion, no fairness assumed; 'data race' = two goroutines enabled at conflicting accesses"]

PROPS['C08'] = dict(
    translator=True,
    lean_modules=['FluentVerif.Conc.Lockset', 'FluentVerif.Tie.Conc', 'FluentVerif.Props.C09'],
    theorems=['FV.Lk.check_sound', 'FV.Lk.critical_section_exclusive', 'FV.Tie.client_lockset', 'FV.Tie.C08_wire_under_mutex',
              'FV.Tie.C08_sections_exclusive', 'FV.Tcp.C09_ok_all', 'FV.Tcp.C09_prefix'],
    suites=[_CONC_SUITE, _TCP_SUITE],
    race_suites=[('conc', dict(quick=10, thorough=100))],
    rule=_CONC_RULE + ' || ' + _TCP_RULE,
    explanation="check_sound / critical_section_exclusive (for all programs, schedules, numbers of goroutines) instantiated with the "
                "control-flow graph regenerated from client.go on this run: Tie.client_lockset (check Gen.client = true, by decide) "
                "and C08_wire_under_mutex (every use of the connection holds the send mutex or the session lock exclusively) give "
                "C08_sections_exclusive: send sections never overlap; with C09 (one write of the whole encoding per section) the "
                "wire is a concatenation of complete encodings and one send at a time awaits its ack. Search when an obligation "
                "breaks: concurrent scenarios on a non-atomic connection mock + race detector.",
    assumptions=_CONC_ASSUME + _TCP_ASSUME[:1],
)

PROPS['C14'] = dict(
    translator=True,
    lean_modules=['FluentVerif.Conc.Lockset', 'FluentVerif.Tie.Conc', 'FluentVerif.Props.C06'],
    theorems=['FV.Lk.check_sound', 'FV.Tie.client_lockset', 'FV.Tie.C14_race_free', 'FV.Tcp.C06_inv_run', 'FV.Tcp.C14_one_open',
              'FV.Tcp.C14_connect_active', 'FV.Tcp.C14_no_panic'],
    suites=[_CONC_SUITE, _TCP_SUITE],
    race_suites=[('conc', dict(quick=10, thorough=100))],
    rule=_CONC_RULE + ' || ' + _TCP_RULE,
    explanation="Sequential: C06_inv_run / C14_one_open — for every operation sequence exactly the session's connection is open, every "
                "connection is closed once, at the step that replaces or drops it; C14_connect_active; C14_no_panic. Concurrent: "
                "C14_race_free = check_sound on the regenerated graph of client.go: under every schedule no two goroutines are at "
                "conflicting accesses to session / TransportPhase / the connection; lifecycle operations hold the session lock "
                "exclusively, so they are atomic and the sequential invariant holds at every point of every concurrent history. "
                "Search: lifecycle / hsrace scenarios with dial-close accounting, watchdog (deadlock) and the race detector.",
    assumptions=_CONC_ASSUME + _TCP_ASSUME[:1] + ["deadlock freedom is argued for the lock graph only (sessionLock before the send mutex, "
                                                   "never the reverse); I/O that never returns blocks Disconnect by design"],
)

_WS_RULE = ("wsclient suite: operation sequences (2..10 ops) on client.WSClient over a fake factory and a fake underlying websocket "
            "connection: Connect / Disconnect / Reconnect with dial failures and ws.NewConnection failures, Send of every message kind "
            "and SendRaw (1 byte .. 5 KB) with and without a failing frame write, and the background reader ending with a transport "
            "error / close 1006 / close 1001 / close 1000 at chosen moments (the harness waits for the listen.start / listen.done "
            "observation points); every frame handed to the underlying connection and every underlying Close is logged. wsgate: four "
            "schedule-controlled scenarios holding Send / SendRaw / the connect goroutine at a verifAt point while Disconnect or "
            "Reconnect runs (in a child process). wsconc: 5 goroutines x 60 random operations, judged on panics, readers/writers per "
            "connection, closes and close frames, and under the race detector. distinct = distinct op sequence; non-trivial = all")
_WS_SUITES = [dict(suite='wsclient', n=dict(quick=1500, thorough=6000), shards=dict(quick=1, thorough=16), trivial=r'^-$'),
              dict(suite='wsgate', n=dict(quick=1, thorough=1), shards=dict(quick=1, thorough=1), trivial=r'^-$'),
              dict(suite='wsconc', n=dict(quick=6, thorough=100), shards=dict(quick=1, thorough=8), trivial=r'^-$')]

PROPS['C17'] = dict(
    translator=True,
    lean_modules=['FluentVerif.Props.C17', 'FluentVerif.Conc.Lockset', 'FluentVerif.Tie.Conc'],
    theorems=['FV.WsC.C17_one_frame', 'FV.WsC.C17_send_one_frame', 'FV.WsC.C17_failed_write', 'FV.WsC.C17_unencodable',
              'FV.WsC.C17_sticky', 'FV.WsC.C17_sticky_set', 'FV.WsC.C17_sticky_persists', 'FV.WsC.C17_reconnect_clears',
              'FV.WsC.C17_no_session', 'FV.WsC.C17_closed_session', 'FV.WsC.C17_connect_active', 'FV.WsC.C17_failed_reconnect',
              'FV.WsC.C17_disconnect', 'FV.Tie.wsClient_lockset', 'FV.Tie.C17_race_free'],
    suites=_WS_SUITES,
    race_suites=[('wsconc', dict(quick=4, thorough=40))],
    rule=_WS_RULE,
    explanation="Sequential model of WSClient (session, sticky error, per connection: frames, closes, closed/error state; the reader's "
                "end is an environment step): C17_one_frame (success = exactly one more binary frame with exactly the bytes, nothing on "
                "other connections), C17_sticky*, C17_no_session, C17_connect_active, C17_failed_reconnect, C17_unencodable / "
                "C17_failed_write (C09's websocket half). Concurrent: C17_race_free = check_sound on the regenerated graph of "
                "ws_client.go incl. the spawned goroutines (every access to session / err under its lock). Correspondence: per "
                "operation result + frames + closes + dials equal the model's; gated schedules and concurrent runs as search.",
    assumptions=_CONC_ASSUME + ["ws.Connection is used through its observable behaviour (frames, underlying close, Closed()); its own "
                                "close protocol is C15/C16"],
)


_WC_RULE = ("wsconn suite: the real ws.Connection over an instrumented ext.Conn (counts goroutines inside WriteMessage / ReadMessage, "
            "records frames and underlying closes), each case in a child process: closers (n = 1..24 goroutines call Close at once, "
            "with or without a running Listen, against a peer that echoes the close frame / stays silent / closes first with 1000 or "
            "1001 / severs the transport / fails the write), relisten (Listen again k times after closure; k = 0: second Listen on a "
            "live connection), writers (data-frame writers racing two closers); plus wsconc through WSClient. distinct = distinct "
            "(scenario, n, listen, peer, seed); non-trivial = every run")
_WC_SUITES = [dict(suite='wsconn', n=dict(quick=400, thorough=3000), shards=dict(quick=4, thorough=16), trivial=r'^-$'),
              dict(suite='wsconc', n=dict(quick=6, thorough=60), shards=dict(quick=1, thorough=4), trivial=r'^-$')]
_WC_ASSUME = _CONC_ASSUME + ["the closers model abstracts the close handshake to: state gate under the state lock, frame write, wait for the "
                             "reader (or the deadline), underlying close; wall-clock bounds are checked on the real runs only "
                             "(close deadline 150 ms + 400 ms slack)",
                             "gorilla/websocket itself is not modelled: ext.Conn is replaced by the instrumented fake"]

PROPS['C15'] = dict(
    translator=True,
    lean_modules=['FluentVerif.Props.C15', 'FluentVerif.Conc.Lockset', 'FluentVerif.Tie.Conc'],
    theorems=['FV.WsCl.C15_closers', 'FV.WsCl.C15_open_monotone', 'FV.WsCl.C15_closer_enabled', 'FV.WsCl.C15_loser',
              'FV.WsCl.C15_closed_before_close',
              'FV.WsR.C15_done_closed_once', 'FV.WsR.C15_legacy_witness', 'FV.Tie.wsConn_lockset', 'FV.Tie.C16_one_writer'],
    suites=_WC_SUITES,
    race_suites=[('wsconn', dict(quick=12, thorough=120))],
    rule=_WC_RULE,
    explanation="Closers model (any number of goroutines in CloseWithMsg, a reader, arbitrary interleaving): C15_closers — at most one "
                "close frame, at most one underlying close, at most one goroutine past the state gate; C15_open_monotone — once not "
                "open, never open again; C15_closer_enabled — a closer past the gate always has a step (deadline), so it terminates; "
                "C15_loser — every other closer returns 'multiple close calls'; C15_closed_before_close — the Closed bit is set no later "
                "than the underlying close (why a reader failing on the local close takes the healthy exit and Listen returns nil). Reader model: C15_done_closed_once — the done channel "
                "is closed at most once under every schedule of Listen calls (C15_legacy_witness: twice without the Once, the pinned "
                "crash). Tie: regenerated lockset graph of ws/connection.go (state accesses under stateLock, writes under writeLock). "
                "Oracle on real runs: <= 1 proceeding Close, <= 1 close frame, exactly 1 underlying close, Closed() true and never "
                "reverting, every Close back within deadline + slack, Listen returns (nil after a normal closure, the error otherwise), "
                "later Listen calls return without crashing.",
    assumptions=_WC_ASSUME,
)

PROPS['C16'] = dict(
    translator=True,
    lean_modules=['FluentVerif.Props.C15', 'FluentVerif.Conc.Lockset', 'FluentVerif.Tie.Conc'],
    theorems=['FV.WsR.C16_one_reader', 'FV.Tie.C16_one_writer', 'FV.Tie.wsConn_lockset', 'FV.Tie.readMessage_only_in_readLoop',
              'FV.Tie.readLoop_spawned_only_by_Listen'],
    suites=_WC_SUITES,
    race_suites=[('wsconn', dict(quick=12, thorough=120))],
    rule=_WC_RULE,
    explanation="C16_one_writer: check_sound on the regenerated graph of ws/connection.go — every call of a frame-writing method of "
                "the underlying connection (WriteMessage, NextWriter, WriteControl, WritePreparedMessage, WriteJSON) is under "
                "writeLock exclusively, so data frames and the close frame never overlap, under every schedule. C16_one_reader: reader model (any number of Listen calls, arbitrary interleaving): at most one "
                "thread is ever between the listening gate and the end of its read loop; the translator facts tie it: ReadMessage "
                "is called only in runReadLoop, which is spawned only by Listen. Oracle on real runs: the instrumented ext.Conn "
                "never sees two goroutines inside WriteMessage or inside ReadMessage; a second Listen returns the already-listening "
                "error.",
    assumptions=_WC_ASSUME,
)


# ---- cross-suite additions (suites defined further up than the property they also serve) ----
PROPS['C09']['suites'] = [_TCP_SUITE, _WS_SUITES[0]]
PROPS['C09']['lean_modules'] = PROPS['C09']['lean_modules'] + ['FluentVerif.Props.C17']
PROPS['C09']['theorems'] = PROPS['C09']['theorems'] + ['FV.WsC.C17_failed_write', 'FV.WsC.C17_unencodable', 'FV.WsC.C17_send_one_frame']
PROPS['C09']['rule'] = _TCP_RULE + ' || ' + _WS_RULE
PROPS['C09']['explanation'] = PROPS['C09']['explanation'].replace('Websocket client half: see C17.',
    'Websocket client half: C17_send_one_frame / C17_failed_write / C17_unencodable (success = exactly one binary frame with the '
    'whole encoding; a failed frame write or an unencodable message is an error), checked on the real WSClient over a fake '
    'websocket connection whose message writer, like gorilla\'s, reports a failed flush from Close (payloads of 1 B .. 70 KB, '
    'around the 125 / 4096 / 65535 byte frame boundaries).')

PROPS['C10']['suites'] = [_CODEC_SUITE, _CHUNK_SUITE, _TCP_SUITE]
PROPS['C10']['lean_modules'] = PROPS['C10']['lean_modules'] + ['FluentVerif.Props.C05', 'FluentVerif.Props.C06']
PROPS['C10']['theorems'] = PROPS['C10']['theorems'] + ['FV.Tcp.C05_accept_iff', 'FV.Tcp.C14_no_panic']
PROPS['C10']['rule'] = PROPS['C10']['rule'] + ' || ' + _TCP_RULE
PROPS['C10']['explanation'] = PROPS['C10']['explanation'] + (
    ' Client side: C05_accept_iff — no HELO / PONG byte sequence puts the client into transport phase except one carrying '
    'the digest for this salt, nonce and key (every other input: error, phase unchanged); the tcp suite feeds truncated, empty, '
    'upper-case, reflected, replayed and garbage HELO / PONG / ack bytes to the real client.')

# ---- the deciding method per property (MANIFEST "technique") ----
_T_CODEC = ("Lean 4 theorems (induction over the msgpack grammar / structural recursion over the model of the msgp primitives and of "
            "the repository's encoders and decoders), kernel-checked; model tied to /repo by differential correspondence: Go harness "
            "runs the real code on generated inputs, the compiled Lean driver runs the model's own definitions and an independent "
            "specification oracle on the same lines")
_T_SEQ = ("Lean 4 theorems over a sequential state-machine model (step function; invariants by induction over the operation list; "
          "peer and network are inputs of every step), kernel-checked; tied to /repo by differential correspondence on operation "
          "sequences against scripted connections (per-operation result and event list must equal the model's)")
_T_CONC = ("Lean 4: (a) a lockset checker with access policies proved sound once for all programs and all schedules (check_sound, "
           "critical_section_exclusive), instantiated by `decide` on control-flow graphs that a go/ast translator regenerates from "
           "/repo on every run; (b) interleaving models with invariants by induction over the schedule; (c) sequential model + "
           "differential correspondence; real concurrent runs (instrumented mocks, gated hooks, race detector) only search for a "
           "concrete failing schedule")
TECHNIQUE = {
    'C01': _T_CODEC, 'C02': _T_CODEC + '; helpers: model of the Send* helpers, wire compared byte for byte', 'C03': _T_CODEC +
    '; gzip abstract (Codec with gunzip o member = id), pooled compressor as a state machine, histories in one process',
    'C04': _T_SEQ, 'C05': _T_SEQ + '; plus a symbolic (Dolev-Yao) model of the handshake with a derivability induction',
    'C06': _T_SEQ, 'C07': _T_CODEC + '; heap-ownership model with interleavings for the pooled buffers',
    'C08': _T_CONC, 'C09': _T_SEQ, 'C10': _T_CODEC + '; totality = every model function is total and never returns `panic`',
    'C11': _T_CODEC, 'C12': _T_CODEC + '; base64 injectivity proved for every length', 'C13': _T_CODEC, 'C14': _T_CONC,
    'C15': _T_CONC, 'C16': _T_CONC, 'C17': _T_CONC, 'C18': _T_CODEC, 'C19': _T_CODEC + '; integer arithmetic on seconds / nanoseconds',
    'C20': _T_CODEC + '; multiset equality by counting, proved equivalent to the matching loop',
}
for _k, _v in TECHNIQUE.items():
    PROPS[_k]['technique'] = _v

# C01 also covers what the packed constructors put into the stream they later round-trip: histories incl. failed calls
PROPS['C01']['suites'] = PROPS['C01']['suites'] + [_PACKED_SUITES[0]]
PROPS['C01']['rule'] = PROPS['C01']['rule'] + ' || ' + _PACKED_RULE

# C04: the id a RawMessage send waits for is GetChunk's result; its stability is checked by the chunk suite
PROPS['C04']['suites'] = PROPS['C04']['suites'] + [_CHUNK_SUITE]
PROPS['C04']['rule'] = PROPS['C04']['rule'] + ' || chunk suite (GetChunk on valid, alternative and mutated inputs; the returned string is re-read after later calls)'

# C06 under concurrency ("nothing is written to a connection after the client closed or replaced it"): the lock discipline
# of the regenerated graph (every use of the connection under the send mutex + shared session lock, or the exclusive session
# lock) and the concurrent lifecycle scenario
PROPS['C06']['translator'] = True
PROPS['C06']['lean_modules'] = PROPS['C06']['lean_modules'] + ['FluentVerif.Conc.Lockset', 'FluentVerif.Tie.Conc']
PROPS['C06']['theorems'] = PROPS['C06']['theorems'] + ['FV.Lk.check_sound', 'FV.Tie.client_lockset', 'FV.Tie.C14_race_free', 'FV.Tie.C08_wire_under_mutex']
PROPS['C06']['suites'] = PROPS['C06']['suites'] + [_CONC_SUITE]
PROPS['C06']['race_suites'] = [('conc', dict(quick=4, thorough=40))]
PROPS['C06']['rule'] = PROPS['C06']['rule'] + ' || ' + _CONC_RULE
PROPS['C06']['assumptions'] = PROPS['C06']['assumptions'] + _CONC_ASSUME
PROPS['C06']['technique'] = _T_SEQ + '; concurrency half: ' + _T_CONC

# C07: constructors hand out independent values (incl. the handshake constructors)
_INDEP_SUITE = dict(suite='indep', n=dict(quick=600, thorough=20000), shards=dict(quick=1, thorough=4), trivial=r'^-$')
PROPS['C07']['suites'] = PROPS['C07']['suites'] + [_INDEP_SUITE]
PROPS['C07']['rule'] = PROPS['C07']['rule'] + (' || indep suite: for the constructors NewHelo(nil), NewPing, NewPong, NewPackedForwardMessage, '
    'NewCompressedPackedForwardMessage, NewForwardMessage, NewMessage: two values from the same arguments, the first then decoded into / '
    'given a chunk id; the second and a third built afterwards must be unaffected')

# C13 also speaks about UnmarshalPacked (one value per entry, nothing skipped): packed histories contain mutated streams
PROPS['C13']['suites'] = PROPS['C13']['suites'] + [_PACKED_SUITES[0]]
PROPS['C13']['rule'] = PROPS['C13']['rule'] + ' || ' + _PACKED_RULE

# C12: "the id the client waits for is the id the server sees" also for RawMessage, whose Chunk() is GetChunk
PROPS['C12']['suites'] = PROPS['C12']['suites'] + [_CHUNK_SUITE]
PROPS['C12']['rule'] = PROPS['C12']['rule'] + ' || chunk suite (RawMessage.Chunk / GetChunk against the option map the specification parser finds)'

# round 6: Chunk() must add the chunk option and nothing else (cid suite: constructors x Chunk()); RawMessage through a stream
# writer and concurrent GetChunk lookups live in the chunk suite
_CID_SUITE = PROPS['C12']['suites'][0]
for _p in ('C01', 'C02', 'C03'):
    PROPS[_p]['suites'] = PROPS[_p]['suites'] + [_CID_SUITE]
    PROPS[_p]['rule'] = PROPS[_p]['rule'] + ' || cid suite: every constructor, then Chunk(): the option map afterwards is the constructor\'s plus the chunk'
if _CHUNK_SUITE not in PROPS['C13']['suites']:
    PROPS['C13']['suites'] = PROPS['C13']['suites'] + [_CHUNK_SUITE]
    PROPS['C13']['rule'] = PROPS['C13']['rule'] + ' || chunk suite: RawMessage.EncodeMsg through a stream writer at sizes around and beyond its 2 KiB buffer, followed by another message (RAWE)'

# round 7: a send altered by an earlier failed send (C07 through the client), instants through the packed constructors (C19)
PROPS['C07']['suites'] = PROPS['C07']['suites'] + [_TCP_SUITE]
PROPS['C07']['rule'] = PROPS['C07']['rule'] + ' || ' + _TCP_RULE
PROPS['C19']['suites'] = PROPS['C19']['suites'] + [PROPS['C03']['suites'][0]]
PROPS['C19']['rule'] = PROPS['C19']['rule'] + ' || packed suite: the entries of packed / compressed streams carry the instants they were given, also after failed calls'

# C08 / C16 as statements about the sequence of events (Conc/Sections.lean): sections are uninterrupted in the execution log
PROPS['C08']['theorems'] = PROPS['C08']['theorems'] + ['FV.Lk.held_log', 'FV.Lk.shared_log', 'FV.Lk.section_uninterrupted',
                                                       'FV.Tie.C08_send_section_uninterrupted', 'FV.Tie.C08_section_reachable']
PROPS['C08']['explanation'] = PROPS['C08']['explanation'] + (
    " As a statement about event sequences: the execution log of a schedule (which goroutine executed which node, in order) is defined in "
    "Conc/Sections.lean; held_log / shared_log / section_uninterrupted are proved for every checked program and every schedule, and "
    "C08_send_section_uninterrupted instantiates them on the regenerated graph: from any reachable state in which a goroutine is inside its "
    "send section, and until it leaves it, every use of the connection in the log is that goroutine's own.")
PROPS['C15']['theorems'] = PROPS['C15']['theorems'] + ['FV.Tie.close_gate_sites', 'FV.Tie.connState_no_plain_store']
PROPS['C16']['theorems'] = PROPS['C16']['theorems'] + ['FV.Tie.listen_gate_sites', 'FV.Tie.connState_no_plain_store', 'FV.Tie.wire_calls_only_in_methods', 'FV.Lk.held_log', 'FV.Lk.section_uninterrupted1', 'FV.Tie.C16_writes_under_writeLock',
                                                       'FV.Tie.C16_write_section_uninterrupted', 'FV.Tie.C16_section_reachable']
PROPS['C16']['explanation'] = PROPS['C16']['explanation'] + (
    " C16_write_section_uninterrupted: in the execution log of every schedule, while a goroutine holds writeLock every frame-writing call "
    "that happens is its own (frames are written one at a time, as a statement about the event sequence).")

# C10, memory clause: allocation model + partial theorems + witnesses; the translator lists the count-sized make sites
PROPS['C10']['translator'] = True
PROPS['C10']['lean_modules'] = PROPS['C10']['lean_modules'] + ['FluentVerif.Tie.Alloc']
PROPS['C10']['theorems'] = PROPS['C10']['theorems'] + [
    'FV.C10_alloc_Message_partial', 'FV.C10_alloc_MessageExt_partial', 'FV.C10_alloc_Forward_partial', 'FV.C10_alloc_Entry_partial',
    'FV.C10_alloc_EntryExt_partial', 'FV.C10_alloc_EntryList_partial', 'FV.C10_alloc_unmarshalPacked_partial',
    'FV.C10_alloc_witness_Message', 'FV.C10_alloc_witness_Forward', 'FV.C10_alloc_full_false', 'FV.allocIntf_le', 'FV.allocIntf_bomb',
    'FV.Tie.count_sized_makes']
PROPS['C10']['explanation'] = PROPS['C10']['explanation'] + (
    " Memory clause: T.alloc b (Proto/Alloc.lean) counts the elements the slice decoder of T requests through count-sized make calls "
    "(msgp ReadIntfBytes arrays and maps, make(EntryList, n)); the clause at full strength is false of model and code "
    "(C10_alloc_full_false, C10_alloc_witness_*: open finding C10-count-driven-allocation); proved instead, C10_alloc_T_partial: on every "
    "accepted input the elements requested are at most the bytes consumed. Tie: the translator lists the make calls of fluent/protocol whose "
    "size is not a constant or a len(…) (Tie.count_sized_makes pins the two generated EntryList sites); the harness reports the heap bytes "
    "each slice-path decode requested (runtime/metrics around UnmarshalMsg; child process under an address-space limit for inputs declaring "
    "huge counts or lengths) and the driver accepts them when within 64·len + 4 MiB, files them under the open finding when within 128 bytes "
    "per element the model says were requested, and reports anything beyond as `C10 alloc-unexplained` (a violation).")

# C10 names EventTime decoding among the entry points: the et suite's decode half (payloads of every length 0..19)
PROPS['C10']['suites'] = PROPS['C10']['suites'] + [PROPS['C19']['suites'][0]]
PROPS['C10']['rule'] = PROPS['C10']['rule'] + ' || et suite (EventTime.UnmarshalBinary on payloads of 0..19 bytes)'

# C05: the server-side helpers (NewPing / NewPingWithAuth, ValidatePingDigest, NewPong, ValidatePongDigest) directly
_HSH_SUITE = dict(suite='hsh', n=dict(quick=1500, thorough=20000), shards=dict(quick=1, thorough=4), trivial=r'^-$')
PROPS['C05']['suites'] = PROPS['C05']['suites'] + [_HSH_SUITE]
PROPS['C05']['rule'] = PROPS['C05']['rule'] + (' || hsh suite: NewPing / NewPingWithAuth, ValidatePingDigest, NewPong, ValidatePongDigest called directly with keys, '
    'salts, nonces and hostnames of 0..600 bytes (around 112 / 128 / 496 / 512), the validating side holding a different key / nonce / salt / '
    'hostname or a truncated / upper-cased / empty / extended digest; judged against the model and against the formula evaluated on '
    'digests the harness computes')

# C02: the bin of a PackedForward message is the entries' encodings; C07: decoded values do not alias the input
PROPS['C02']['suites'] = PROPS['C02']['suites'] + [_PACKED_SUITES[0]]
PROPS['C02']['rule'] = PROPS['C02']['rule'] + ' || ' + _PACKED_RULE
PROPS['C07']['suites'] = PROPS['C07']['suites'] + [_CODEC_SUITE]
PROPS['C07']['rule'] = PROPS['C07']['rule'] + (' || codec suite: after every successful decode the caller overwrites the slice it decoded from / the reader '
    'takes in the next 8 KiB, and the decoded value is rendered again (it must not look into that memory)')

# C07: the handshake helpers do not write into the caller's salt / nonce / key buffers
PROPS['C07']['suites'] = PROPS['C07']['suites'] + [_HSH_SUITE]

# C12: the id of a decoded message is stable (does not alias the reader's buffer): codec suite's reuse check
PROPS['C12']['suites'] = PROPS['C12']['suites'] + [_CODEC_SUITE]
PROPS['C12']['rule'] = PROPS['C12']['rule'] + ' || codec suite (decoded values re-rendered after the input memory is reused)'

# ---- decoder skeletons: the hand-written decoders' bodies are regenerated from the source (translator/codec.go -> Gen/Codec.lean) and
# proved, for every receiver and input, to compute exactly the decoder models the property theorems are about (Tie/Codec.lean)
_SK_THEOREMS = ['FV.Tie.Message_UnmarshalMsg_is_model', 'FV.Tie.Message_DecodeMsg_is_model', 'FV.Tie.MessageExt_UnmarshalMsg_is_model',
                'FV.Tie.MessageExt_DecodeMsg_is_model', 'FV.Tie.Forward_UnmarshalMsg_is_model', 'FV.Tie.Forward_DecodeMsg_is_model',
                'FV.Tie.Packed_UnmarshalMsg_is_model', 'FV.Tie.Packed_DecodeMsg_is_model',
                'FV.Tie.Entry_UnmarshalMsg_is_model', 'FV.Tie.Entry_DecodeMsg_is_model', 'FV.Tie.EntryExt_UnmarshalMsg_is_model',
                'FV.Tie.EntryExt_DecodeMsg_is_model', 'FV.Tie.Ping_UnmarshalMsg_is_model', 'FV.Tie.Ping_DecodeMsg_is_model',
                'FV.Tie.Pong_UnmarshalMsg_is_model', 'FV.Tie.Pong_DecodeMsg_is_model']
_SK_TEXT = (" Regenerated tie for the decoders: translator/codec.go re-reads the bodies of (*Message|*MessageExt|*ForwardMessage|"
            "*PackedForwardMessage|*Entry|*EntryExt|*Ping|*Pong).UnmarshalMsg / DecodeMsg (hand-written and msgp-generated) from /repo's working tree on every run and emits them statement by statement "
            "(Gen/Codec.lean; a statement it does not recognise becomes `.unknown`, which evaluates to a panic); T_UnmarshalMsg_is_model / "
            "T_DecodeMsg_is_model (Tie/Codec.lean) prove that running the regenerated body (Sk.run, Sk/Interp.lean) equals T.unmarshal on every "
            "receiver and every input, so the theorems about T.unmarshal are theorems about what the source says now.")
for _p in ('C01', 'C05', 'C10', 'C13', 'C18'):
    PROPS[_p]['translator'] = True
    PROPS[_p]['lean_modules'] = PROPS[_p]['lean_modules'] + ['FluentVerif.Tie.Codec']
    PROPS[_p]['theorems'] = PROPS[_p]['theorems'] + _SK_THEOREMS
    PROPS[_p]['explanation'] = PROPS[_p]['explanation'] + _SK_TEXT
    PROPS[_p]['assumptions'] = PROPS[_p]['assumptions'] + [
        "translator/codec.go is trusted to render each recognised Go statement as the Sk statement of the same meaning (its rules are "
        "listed in DESIGN 0.9); the msgp primitives the statements call are the modelled ones"]
    PROPS[_p]['technique'] = PROPS[_p]['technique'] + ('; the hand-written decoders are additionally tied by translation: their bodies are regenerated from the '
        'Go source on every run and proved equal (as functions of receiver and input) to the decoder models')

# ---- encoder skeletons: the bodies of MarshalMsg / EncodeMsg of the four message types (msgp-generated and hand-written) are regenerated
# from the source and proved to append exactly the encoder model's bytes (Tie/CodecEnc.lean)
_SKE_THEOREMS = ['FV.Tie.Message_MarshalMsg_is_model', 'FV.Tie.Message_EncodeMsg_is_model', 'FV.Tie.MessageExt_MarshalMsg_is_model',
                 'FV.Tie.MessageExt_EncodeMsg_is_model', 'FV.Tie.Forward_MarshalMsg_is_model', 'FV.Tie.Forward_EncodeMsg_is_model',
                 'FV.Tie.Packed_MarshalMsg_is_model', 'FV.Tie.Packed_EncodeMsg_is_model'] + [
    f'FV.Tie.{t}_{m}_is_model' for t in ('Entry', 'EntryExt', 'EntryList', 'MessageOptions', 'Ping', 'Pong', 'Ack', 'HeloOpts', 'Helo') for m in ('MarshalMsg', 'EncodeMsg')]
_SKE_TEXT = (" Regenerated tie for the encoders: the bodies of MarshalMsg / EncodeMsg of Message, MessageExt, PackedForwardMessage, Entry, EntryExt, "
             "Ping, Pong, AckMessage, HeloOpts, Helo (msgp-generated) and ForwardMessage (hand-written) are re-read from /repo's working tree on every run (Gen/Codec.lean, `.unknown` for anything "
             "unrecognised) and T_MarshalMsg_is_model / T_EncodeMsg_is_model (Tie/CodecEnc.lean) prove that running the regenerated body on a "
             "message and the caller's bytes yields those bytes followed by T.marshal (`.err` exactly where the model has no encoding); the Go "
             "variable `err` is part of the interpreter's state (ForwardMessage.MarshalMsg returns an unchecked one).")
for _p in ('C01', 'C02', 'C03', 'C05', 'C12'):
    PROPS[_p]['translator'] = True
    PROPS[_p]['lean_modules'] = PROPS[_p]['lean_modules'] + ['FluentVerif.Tie.CodecEnc']
    PROPS[_p]['theorems'] = PROPS[_p]['theorems'] + _SKE_THEOREMS
    PROPS[_p]['explanation'] = PROPS[_p]['explanation'] + _SKE_TEXT
    if not any('translator/codec.go' in a for a in PROPS[_p]['assumptions']):
        PROPS[_p]['assumptions'] = PROPS[_p]['assumptions'] + [
            "translator/codec.go is trusted to render each recognised Go statement as the Sk statement of the same meaning (its rules are "
            "listed in DESIGN 0.9); the msgp primitives the statements call are the modelled ones"]
    if 'tied by translation' not in PROPS[_p]['technique']:
        PROPS[_p]['technique'] = PROPS[_p]['technique'] + ('; encoder bodies are additionally tied by translation: regenerated from the Go source on every '
            'run and proved to append exactly the encoder model\'s bytes')

# ---- the msgp-generated map decoders (MessageOptions, AckMessage, HeloOpts, Helo with its inlined options): key loop + switch regenerated,
# proved equal to the models' readFields over their handler tables by induction on the number of keys (Tie/CodecMap.lean)
_SKM_THEOREMS = [f'FV.Tie.{t}_{m}_is_model' for t in ('MessageOptions', 'AckMessage', 'HeloOpts', 'Helo', 'EntryList') for m in ('UnmarshalMsg', 'DecodeMsg')] + [
    'FV.Tie.loopN_eq_readFields', 'FV.Tie.mapEl_eq_readEntries']
_SKM_TEXT = (" The msgp-generated map decoders (MessageOptions, AckMessage, HeloOpts, Helo with its inlined options decoder) are tied the same way: "
             "the key loop `for n > 0 { n--; key; switch key { case …; default: Skip } }` is a statement of the skeleton language (Stmt.mapLoop), and "
             "loopN_eq_readFields proves by induction on the number of keys that it is the model's readFields over the handler table, given that one pass "
             "of the regenerated switch does what the table's handler for that key does (T_step, by cases on the key). EntryList (header, resize, "
             "`for i := range *z { body }`): mapEl_eq_readEntries proves by induction over the elements that one pass of the regenerated body per "
             "element is the model's readEntries, whatever the elements held before; its encoders (header from len(z), body per element) by eloop_entries.")
for _p in ('C01', 'C03', 'C04', 'C05', 'C10', 'C13', 'C18'):
    PROPS[_p]['translator'] = True
    PROPS[_p]['lean_modules'] = PROPS[_p]['lean_modules'] + ['FluentVerif.Tie.CodecMap']
    PROPS[_p]['theorems'] = PROPS[_p]['theorems'] + _SKM_THEOREMS
    PROPS[_p]['explanation'] = PROPS[_p]['explanation'] + _SKM_TEXT
    if not any('translator/codec.go' in a for a in PROPS[_p]['assumptions']):
        PROPS[_p]['assumptions'] = PROPS[_p]['assumptions'] + [
            "translator/codec.go is trusted to render each recognised Go statement as the Sk statement of the same meaning (its rules are "
            "listed in DESIGN 0.9); the msgp primitives the statements call are the modelled ones"]
    if 'tied by translation' not in PROPS[_p]['technique']:
        PROPS[_p]['technique'] = PROPS[_p]['technique'] + ('; the ack / option / handshake map decoders are additionally tied by translation: bodies regenerated '
            'from the Go source on every run and proved equal to the decoder models (key loop by induction)')

# ---- client method skeletons: Client.Send / SendRaw / checkAck / writeAll regenerated (translator/client.go -> Gen/Client.lean) and proved equal to
# the sequential client model's send / sendRaw for every state, configuration, peer and network behaviour (Tie/Client.lean)
_SKC_THEOREMS = ['FV.Tie.Client_Send_empty_chunk_refused', 'FV.Tie.Client_Send_is_model', 'FV.Tie.Client_SendRaw_is_model', 'FV.Tie.writeAll_shape', 'FV.Tie.Client_Connect_is_model',
                 'FV.Tie.Client_Disconnect_is_model', 'FV.Tie.Client_Reconnect_is_model', 'FV.Tie.Client_TransportPhase_is_model',
                 'FV.Tie.Client_Handshake_is_model']
_SKC_TEXT = (" Regenerated tie for the client's methods: the bodies of Client.Send, SendRaw, checkAck, writeAll, Connect, Disconnect, Reconnect, connect, "
             "disconnect, TransportPhase and Handshake are re-read from fluent/client/client.go on every run as sequences of client idioms (Gen/Client.lean; "
             "anything else is `.unknown`, a panic) and Client_M_is_model (Tie/Client.lean) prove that running them on any state, under any configuration, "
             "dial outcome, write fault and peer bytes, yields exactly the result and the events of the model's step for that operation.")
for _p in ('C04', 'C05', 'C06', 'C08', 'C09', 'C10', 'C14'):
    PROPS[_p]['translator'] = True
    PROPS[_p]['lean_modules'] = PROPS[_p]['lean_modules'] + ['FluentVerif.Tie.Client']
    PROPS[_p]['theorems'] = PROPS[_p]['theorems'] + _SKC_THEOREMS
    PROPS[_p]['explanation'] = PROPS[_p]['explanation'] + _SKC_TEXT
    PROPS[_p]['assumptions'] = PROPS[_p].get('assumptions', []) + [
        "translator/client.go is trusted to render each recognised client idiom as the CStmt of the same meaning (DESIGN 0.9)"]
    if 'sending methods are additionally tied by translation' not in PROPS[_p]['technique']:
        PROPS[_p]['technique'] = PROPS[_p]['technique'] + ('; the sending methods are additionally tied by translation: the bodies of the TCP client\'s methods are '
            'regenerated from the Go source on every run and proved equal to the model\'s step')

# ---- GetChunk skeleton (translator/chunk.go -> Gen/Chunk.lean, Sk/Chunk.lean, Tie/Chunk.lean) and the Send* helper shapes
_SKG_THEOREMS = ['FV.Tie.GetChunk_is_model', 'FV.Tie.gloop_keys', 'FV.Tie.chunkKey_is_kChunk']
_SKG_TEXT = (" Regenerated tie for GetChunk: its body is re-read from fluent/protocol/chunk.go on every run (Gen/Chunk.lean; statements recognised by their "
             "source text, anything else `.unknown`), and GetChunk_is_model (Tie/Chunk.lean) proves that running it on any byte string gives exactly the "
             "model's getChunk (the key loop by induction on the count, gloop_keys); chunkKey_is_kChunk pins the key it compares with.")
for _p in ('C04', 'C10', 'C11', 'C12'):
    PROPS[_p]['translator'] = True
    PROPS[_p]['lean_modules'] = PROPS[_p]['lean_modules'] + ['FluentVerif.Tie.Chunk']
    PROPS[_p]['theorems'] = PROPS[_p]['theorems'] + _SKG_THEOREMS
    PROPS[_p]['explanation'] = PROPS[_p]['explanation'] + _SKG_TEXT
    if 'GetChunk is additionally tied by translation' not in PROPS[_p]['technique']:
        PROPS[_p]['technique'] = PROPS[_p]['technique'] + '; GetChunk is additionally tied by translation (body regenerated from the Go source on every run, proved equal to the model)'
PROPS['C02']['translator'] = True
PROPS['C02']['lean_modules'] = PROPS['C02']['lean_modules'] + ['FluentVerif.Tie.Client']
PROPS['C02']['theorems'] = PROPS['C02']['theorems'] + ['FV.Tie.helpers_match_model', 'FV.Tie.helpers_all_modelled']
PROPS['C02']['explanation'] = PROPS['C02']['explanation'] + (" The Send* helpers' shape is regenerated too: for each helper of the model (Helper.wire) the source "
    "as it is now is `msg[, err] := protocol.<that constructor>(<the helper's own arguments>)` followed by `Send(msg)` (helpers_match_model over Gen.Client.clientHelpers).")

# ---- websocket client method skeletons (translator/wsclient.go -> Gen/WsClient.lean, Sk/WsClient.lean, Tie/WsClient.lean)
_SKW_THEOREMS = ['FV.Tie.WSClient_connect_is_model', 'FV.Tie.WSClient_Connect_is_model', 'FV.Tie.WSClient_Disconnect_is_model',
                 'FV.Tie.WSClient_Reconnect_is_model', 'FV.Tie.WSClient_Send_is_model', 'FV.Tie.WSClient_SendRaw_is_model']
_SKW_TEXT = (" Regenerated tie for the websocket client's methods: the bodies of WSClient.connect, Connect, Disconnect, Reconnect, Send, SendRaw are re-read "
             "from fluent/client/ws_client.go on every run as sequences of idioms recognised by their source text (Gen/WsClient.lean; anything else `.unknown`) "
             "and WSClient_M_is_model (Tie/WsClient.lean) prove that running them on any state, under any outcome of the factory, the encoder and the frame "
             "write, gives exactly the result and state of the model's step.")
for _p in ('C09', 'C17'):
    PROPS[_p]['translator'] = True
    PROPS[_p]['lean_modules'] = PROPS[_p]['lean_modules'] + ['FluentVerif.Tie.WsClient']
    PROPS[_p]['theorems'] = PROPS[_p]['theorems'] + _SKW_THEOREMS
    PROPS[_p]['explanation'] = PROPS[_p]['explanation'] + _SKW_TEXT
    if 'websocket client\'s methods are additionally tied by translation' not in PROPS[_p]['technique']:
        PROPS[_p]['technique'] = PROPS[_p]['technique'] + '; the websocket client\'s methods are additionally tied by translation (bodies regenerated from the Go source on every run, proved equal to the model\'s step)'

# ---- the small hand-written functions of transport.go (translator/transport.go -> Gen/Transport.lean, Sk/Transport.lean, Tie/Transport.lean)
_SKT_TEXT = (" Regenerated tie for transport.go's small functions: EventTime.MarshalBinaryTo / UnmarshalBinary and EntryList.UnmarshalPacked / MarshalPacked are "
             "re-read on every run, each statement recognised by its exact source text (anything else `.unknown`), and T_is_model (Tie/Transport.lean) prove "
             "that evaluating the regenerated statements gives encodeET / decodeET / unmarshalPacked / marshalPacked.")
for _p, _ths in (('C19', ['FV.Tie.EventTime_MarshalBinaryTo_is_model', 'FV.Tie.EventTime_UnmarshalBinary_is_model']),
                 ('C03', ['FV.Tie.EntryList_UnmarshalPacked_is_model', 'FV.Tie.EntryList_MarshalPacked_is_model', 'FV.Tie.whileEntries_is_model']),
                 ('C10', ['FV.Tie.EntryList_UnmarshalPacked_is_model', 'FV.Tie.EventTime_UnmarshalBinary_is_model']),
                 ('C13', ['FV.Tie.EntryList_UnmarshalPacked_is_model'])):
    PROPS[_p]['translator'] = True
    PROPS[_p]['lean_modules'] = PROPS[_p]['lean_modules'] + ['FluentVerif.Tie.Transport']
    PROPS[_p]['theorems'] = PROPS[_p]['theorems'] + _ths
    PROPS[_p]['explanation'] = PROPS[_p]['explanation'] + _SKT_TEXT
    if 'by translation' not in PROPS[_p]['technique']:
        PROPS[_p]['technique'] = PROPS[_p]['technique'] + '; the functions are additionally tied by translation (statements regenerated from the Go source on every run, proved to evaluate to the model)'
PROPS['C20']['translator'] = True
PROPS['C20']['lean_modules'] = PROPS['C20']['lean_modules'] + ['FluentVerif.Tie.Transport']
PROPS['C20']['theorems'] = PROPS['C20']['theorems'] + ['FV.Tie.EntryList_Equal_is_model']
PROPS['C20']['explanation'] = PROPS['C20']['explanation'] + (" Regenerated tie: the body of EntryList.Equal is re-read on every run, each statement recognised by its exact source text "
    "(length test, the two copies, the counter, the used marks, the nested loops with continue / mark / count / break, the final comparison; anything else `.unknown`), "
    "and EntryList_Equal_is_model proves that evaluating the regenerated statements is the model's `equal` (C20_iff: list permutation).")
PROPS['C20']['technique'] = PROPS['C20']['technique'] + '; Equal is additionally tied by translation (statements regenerated from the Go source on every run, proved to evaluate to the model)'

# ---- handshake helpers, makeChunkID and the Chunk() methods (translator/handshake.go -> Gen/Handshake.lean, Sk/Handshake.lean, Tie/Handshake.lean)
_SKH_TEXT = (" Regenerated tie for the handshake helpers and the chunk ids: computeHexDigest, validateDigest, ValidatePingDigest, ValidatePongDigest, makePing, NewPing, "
             "NewPingWithAuth, NewPong, makeChunkID and the four Chunk() methods are re-read on every run, each statement recognised by its exact source text "
             "(anything else `.unknown`), and proved to evaluate to hexDigest (salt, hostname, nonce, key written to the hash in that order), validatePing / "
             "validatePong, pingMsg, newPong, makeChunkID and chunkCall (Tie/Handshake.lean).")
for _p, _ths in (('C05', ['FV.Tie.computeHexDigest_is_model', 'FV.Tie.validateDigest_is_model', 'FV.Tie.ValidatePingDigest_is_model', 'FV.Tie.ValidatePongDigest_is_model',
                          'FV.Tie.NewPing_is_model', 'FV.Tie.NewPong_is_model']),
                 ('C12', ['FV.Tie.makeChunkID_is_model', 'FV.Tie.Chunk_is_model', 'FV.Tie.Chunk_bodies_equal'])):
    PROPS[_p]['translator'] = True
    PROPS[_p]['lean_modules'] = PROPS[_p]['lean_modules'] + ['FluentVerif.Tie.Handshake']
    PROPS[_p]['theorems'] = PROPS[_p]['theorems'] + _ths
    PROPS[_p]['explanation'] = PROPS[_p]['explanation'] + _SKH_TEXT

# ---- packed / compressed constructors and GzipCompressor (translator/ctors.go -> Gen/Ctors.lean, Sk/Ctors.lean, Tie/Ctors.lean)
_SKK_THEOREMS = ['FV.Tie.NewPackedForwardMessage_is_model', 'FV.Tie.NewPackedForwardMessageFromBytes_is_model',
                 'FV.Tie.NewCompressedPackedForwardMessageFromBytes_is_model', 'FV.Tie.NewCompressedPackedForwardMessage_is_model', 'FV.Tie.GzipCompressor_shape',
                 'FV.Tie.plain_constructors', 'FV.Tie.RawMessage_is_model']
_SKK_TEXT = (" Regenerated tie for the packed / compressed constructors: NewPackedForwardMessage[FromBytes], NewCompressedPackedForwardMessage[FromBytes] and "
             "GzipCompressor.Write / Reset / Bytes are re-read on every run, each statement recognised by its exact source text (anything else `.unknown`), and "
             "proved to evaluate to newPacked / newCompressedFromBytes / newCompressed for every pooled compressor state (Tie/Ctors.lean) — including that the "
             "message's stream is a copy of the pooled compressor's buffer.")
for _p in ('C02', 'C03', 'C07'):
    PROPS[_p]['translator'] = True
    PROPS[_p]['lean_modules'] = PROPS[_p]['lean_modules'] + ['FluentVerif.Tie.Ctors']
    PROPS[_p]['theorems'] = PROPS[_p]['theorems'] + _SKK_THEOREMS
    PROPS[_p]['explanation'] = PROPS[_p]['explanation'] + _SKK_TEXT
    if 'by translation' not in PROPS[_p]['technique']:
        PROPS[_p]['technique'] = PROPS[_p]['technique'] + '; the constructors are additionally tied by translation (statements regenerated from the Go source on every run, proved to evaluate to the model)'

# ---- the property theorems restated over the regenerated bodies (Tie/ClientProps.lean, Tie/CodecProps.lean)
for _p, _m, _ths in (('C04', 'FluentVerif.Tie.ClientProps', ['FV.Tie.C04_Send_regenerated']),
                     ('C05', 'FluentVerif.Tie.ClientProps', ['FV.Tie.C05_Handshake_regenerated']),
                     ('C06', 'FluentVerif.Tie.ClientProps', ['FV.Tie.C06_Send_regenerated']),
                     ('C09', 'FluentVerif.Tie.ClientProps', ['FV.Tie.C09_Send_regenerated']),
                     ('C01', 'FluentVerif.Tie.CodecProps', ['FV.Tie.C01_Message_regenerated', 'FV.Tie.Message_dec_is_model']),
                     ('C10', 'FluentVerif.Tie.CodecProps', ['FV.Tie.C10_Message_regenerated']),
                     ('C13', 'FluentVerif.Tie.CodecProps', ['FV.Tie.C13_Message_regenerated']),
                     ('C18', 'FluentVerif.Tie.CodecProps', ['FV.Tie.C18_Message_regenerated'])):
    PROPS[_p]['lean_modules'] = PROPS[_p]['lean_modules'] + [_m]
    PROPS[_p]['theorems'] = PROPS[_p]['theorems'] + _ths
    PROPS[_p]['explanation'] = PROPS[_p]['explanation'] + (" The property theorem is also restated over the regenerated body itself (" + ', '.join(t.split('.')[-1] for t in _ths) +
        "): the statement is about running what the translator read from the source on this run, with the model function eliminated by the T_is_model equalities.")

# ---- ws.connection: every statement of every method compared with the text the closers / reader models were written against (Tie/WsConn.lean)
for _p in ('C15', 'C16'):
    PROPS[_p]['lean_modules'] = PROPS[_p]['lean_modules'] + ['FluentVerif.Tie.WsConn']
    PROPS[_p]['theorems'] = PROPS[_p]['theorems'] + ['FV.Tie.wsConn_bodies_pinned']
    PROPS[_p]['explanation'] = PROPS[_p]['explanation'] + (" The sequential content of ws/connection.go between the lock operations (which frame is written, which state bit is set, "
        "how the close deadline is computed) is pinned as text: wsConn_bodies_pinned compares every statement of every method, as re-read on this run, with the text the "
        "interleaving models were written against (no meaning attached: any textual change is reported until the file is brought up to date).")

for _p, _ths in (('C17', ['FV.Tie.C17_Send_regenerated', 'FV.Tie.C17_SendRaw_sticky_regenerated']), ('C09', ['FV.Tie.C17_Send_regenerated'])):
    PROPS[_p]['lean_modules'] = PROPS[_p]['lean_modules'] + ['FluentVerif.Tie.WsClientProps']
    PROPS[_p]['theorems'] = PROPS[_p]['theorems'] + _ths
    PROPS[_p]['explanation'] = PROPS[_p]['explanation'] + (" Restated over the regenerated websocket client bodies: " + ', '.join(t.split('.')[-1] for t in _ths) + ".")
PROPS['C02']['lean_modules'] = PROPS['C02']['lean_modules'] + ['FluentVerif.Tie.CodecProps']
PROPS['C02']['theorems'] = PROPS['C02']['theorems'] + ['FV.Tie.C02_Message_regenerated', 'FV.Tie.Message_enc_ok']
PROPS['C02']['explanation'] = PROPS['C02']['explanation'] + " Restated over the regenerated encoder body: C02_Message_regenerated."

for _p, _ths in (('C11', ['FV.Tie.C11_GetChunk_regenerated']), ('C10', ['FV.Tie.C10_GetChunk_regenerated'])):
    PROPS[_p]['lean_modules'] = PROPS[_p]['lean_modules'] + ['FluentVerif.Tie.ChunkProps']
    PROPS[_p]['theorems'] = PROPS[_p]['theorems'] + _ths
    PROPS[_p]['explanation'] = PROPS[_p]['explanation'] + (" Restated over the regenerated body of GetChunk: " + ', '.join(t.split('.')[-1] for t in _ths) + ".")
