"""Per-property configuration of bin/check: which Lean modules/theorems are the obligations, which
harness suites form the correspondence, what counts as a non-trivial case."""

TRUSTED_BASE = [
    "Lean 4.33.0 kernel (leanchecker re-check in the thorough tier); axioms allowed: propext, Classical.choice, Quot.sound",
    "Lean compiler/runtime executing fvdriver (built from the same definitions the theorems are about)",
    "Go harness /verif/harness (mocks, generators, canonical rendering) and bin/check (orchestration, verdict)",
    "modelled, not verified: tinylib/msgp v1.1.9 primitives, Go runtime/stdlib (time, sync, bytes, gzip, sha512, rand), gorilla/websocket via ext.Conn",
]

PROPS = {}

PROPS['C19'] = dict(
    lean_modules=['FluentVerif.Props.C19'],
    theorems=['FV.C19_roundtrip', 'FV.C19_zone', 'FV.C19_length', 'FV.C19_payload', 'FV.C19_order'],
    suites=[dict(suite='et', n=dict(quick=4000, thorough=400000), shards=dict(quick=1, thorough=16),
                 trivial=r'^(et\.out|-)$')],
    rule="ET: boundary grid (13 seconds x 11 nanoseconds) + random (sec, nsec, zone) triples; ETD: random/"
         "structured 8-byte payloads and wrong lengths. distinct = distinct (op,args); non-trivial = instant "
         "inside the 32-bit-second domain (ET) or any payload (ETD)",
    explanation="Theorems C19_roundtrip/zone/length/payload/order are proved for all instants/payloads over encodeET/"
                "decodeET; the correspondence runs EventTime.MarshalBinaryTo/UnmarshalBinary of the working tree "
                "on the same inputs and compares bytes / decoded instants with the model.",
    assumptions=["time.Time.Unix/Nanosecond/UTC and time.Unix normalisation as documented (modelled)"],
)

PROPS['C20'] = dict(
    lean_modules=['FluentVerif.Props.C20'],
    theorems=['FV.Equal.C20_iff', 'FV.Equal.C20_refl', 'FV.Equal.C20_symm', 'FV.Equal.C20_legacy_excluded'],
    suites=[dict(suite='eq', n=dict(quick=1500, thorough=200000), shards=dict(quick=1, thorough=8),
                 trivial=r'^(eq\.0\..*|-)$')],
    rule="exhaustive: all 14641 ordered pairs of lists of length 0..4 over 3 distinct entries; plus random lists "
         "(length 0..11, up to 5 instants x 6 record shapes) against shuffles / multiplicity changes / "
         "replacements / drops. distinct = distinct (op,args); non-trivial = first list non-empty",
    explanation="C20_iff: equal l1 l2 = true <-> List.Perm l1 l2 for all lists over any type with decidable "
                "equality; the model mirrors the Go loops (used-marks, match counter, length tests). "
                "Correspondence: EntryList.Equal of the working tree vs the model, and vs an independent "
                "multiset oracle, on every generated pair.",
    assumptions=["entries are abstracted to (instant, record-class): harness records of one class are deeply equal, "
                 "of different classes not (NaN-bearing records excluded)"],
)
