module fvtranslate

go 1.18
