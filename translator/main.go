// fvtranslate: reads the Go sources of /repo with go/ast (syntax only) and regenerates
// lean/FluentVerif/Gen/*.lean: protocol constants, and for client.Client, client.WSClient and
// ws.connection one control-flow graph (all exported methods and spawned goroutines behind a
// dispatch node) restricted to the synchronisation-relevant instructions — lock operations, accesses
// to the designated shared variables, I/O on the connection — with a must-hold lockset annotation per
// node.  The annotations are NOT trusted: Lean's `FV.Lk.check` re-validates them (Tie/*.lean, by
// `decide`), and `check_sound` turns an accepted graph into "no two goroutines are ever at
// conflicting accesses, under any schedule".  The translator is trusted for the *shape* of the graph.
//
// usage: fvtranslate <repo> <outdir>
package main

import (
	"bytes"
	"fmt"
	"go/ast"
	"go/parser"
	"go/printer"
	"go/token"
	"os"
	"path/filepath"
	"sort"
	"strconv"
	"strings"
)

type Instr struct {
	Op   string // lock rlock unlock runlock read write other ret unknown
	Arg  string
	Succ []int
	Held string // canonical lockset
	Src  string
}

type held map[string]string // lock -> "ex"|"sh"

func (h held) clone() held {
	n := held{}
	for k, v := range h {
		n[k] = v
	}
	return n
}
func (h held) canon() string {
	ks := []string{}
	for k, v := range h {
		ks = append(ks, k+":"+v)
	}
	sort.Strings(ks)
	return strings.Join(ks, ",")
}

type frame struct {
	defers []*ast.CallExpr
	retK   func(c *ctx) int // continuation after return (nil: top-level -> ret)
}

type loopCtx struct {
	brk  func(c *ctx) int
	cont func(c *ctx) int
}

type ctx struct {
	h      held
	frames []*frame
	depth  int
	loops  []loopCtx
}

func (c *ctx) clone() *ctx {
	n := &ctx{h: c.h.clone(), depth: c.depth, loops: append([]loopCtx{}, c.loops...)}
	for _, f := range c.frames {
		nf := &frame{defers: append([]*ast.CallExpr{}, f.defers...), retK: f.retK}
		n.frames = append(n.frames, nf)
	}
	return n
}

// spec of one type to translate
type TypeSpec struct {
	Dir       string
	Recv      string            // type name
	Locks     map[string]int    // field name -> lock index
	Vars      map[string]int    // designated variable -> var index
	Fields    map[string]string // selector suffix after the receiver -> variable name ("session" -> "session")
	ConnSel   []string          // selector chains (after the receiver) denoting the connection whose use is "wire"
	GateCalls map[string]string // "<function>:<method>(<arg>)" -> gate variable accessed there
	WireOps   map[string]string // method name on the embedded/underlying conn -> variable accessed (ws: WriteMessage -> wswrite)
	Out       string            // Lean def name
	Witness   []WitnessSpec     // schedules to emit: a goroutine reaching an access inside a critical section
}

// WitnessSpec asks for the shortest single-goroutine path from the dispatcher to a node that accesses Var while
// holding every lock of Need in the given mode ("ex" / "sh")
type WitnessSpec struct {
	Name string
	Var  string
	Need map[string]string
}

type T struct {
	fset    *token.FileSet
	methods map[string]*ast.FuncDecl // "Type.method"
	funcs   map[string]*ast.FuncDecl // package-level functions
	spec    *TypeSpec
	recv    string
	code    []Instr
	taint   map[string]bool // local names aliasing the connection
	spawned []spawn
	facts   map[string][]string
	curFn   string
}

type spawn struct {
	lit  *ast.FuncLit
	meth string
	recv string
	from string
}

func (t *T) src(n ast.Node) string {
	var b bytes.Buffer
	printer.Fprint(&b, t.fset, n)
	s := b.String()
	if i := strings.IndexByte(s, '\n'); i >= 0 {
		s = s[:i] + " …"
	}
	return s
}

func (t *T) emit(c *ctx, op, arg, src string) int {
	t.code = append(t.code, Instr{Op: op, Arg: arg, Held: c.h.canon(), Src: src})
	return len(t.code) - 1
}

// chain returns the selector chain of e as dotted text, or "".
func chain(e ast.Expr) string {
	switch x := e.(type) {
	case *ast.Ident:
		return x.Name
	case *ast.SelectorExpr:
		p := chain(x.X)
		if p == "" {
			return ""
		}
		return p + "." + x.Sel.Name
	case *ast.ParenExpr:
		return chain(x.X)
	case *ast.StarExpr:
		return chain(x.X)
	case *ast.UnaryExpr:
		if x.Op == token.AND {
			return chain(x.X)
		}
	}
	return ""
}

type effect struct {
	op, arg, src string
	inline       *ast.FuncDecl
	inlineRecv   string
}

// does the expression mention the connection (directly or through a tainted local)?
func (t *T) mentionsConn(e ast.Node) bool {
	found := false
	ast.Inspect(e, func(n ast.Node) bool {
		switch x := n.(type) {
		case *ast.FuncLit:
			return false
		case *ast.SelectorExpr:
			c := chain(x)
			for _, s := range t.spec.ConnSel {
				if c == t.recv+"."+s || strings.HasPrefix(c, t.recv+"."+s+".") {
					found = true
				}
			}
		case *ast.Ident:
			if t.taint[x.Name] {
				found = true
			}
		}
		return !found
	})
	return found
}

// does the expression mention the object that holds the connection (c.session for ConnSel "session.Connection")?
// A local assigned from it is an alias through which the connection can be reached after the lock is gone.
func (t *T) mentionsConnHolder(e ast.Node) bool {
	found := false
	ast.Inspect(e, func(n ast.Node) bool {
		switch x := n.(type) {
		case *ast.FuncLit:
			return false
		case *ast.SelectorExpr:
			c := chain(x)
			for _, s := range t.spec.ConnSel {
				if i := strings.LastIndex(s, "."); i >= 0 && c == t.recv+"."+s[:i] {
					found = true
				}
			}
		}
		return !found
	})
	return found
}

// effects of evaluating expression e, in order.
func (t *T) exprEffects(e ast.Node, lhs bool) []effect {
	var out []effect
	var visit func(n ast.Node, lhs bool)
	visit = func(n ast.Node, lhs bool) {
		switch x := n.(type) {
		case nil:
		case *ast.CallExpr:
			for _, a := range x.Args {
				visit(a, false)
			}
			fn := chain(x.Fun)
			parts := strings.Split(fn, ".")
			last := parts[len(parts)-1]
			_, isLock := t.spec.Locks[at(parts, len(parts)-2)]
			switch {
			case fn == "close" && len(x.Args) == 1:
				out = append(out, effect{op: "other", arg: "chanClose " + chain(x.Args[0]), src: t.src(x)})
			case len(parts) >= 2 && isLock && (last == "Lock" || last == "RLock" || last == "Unlock" || last == "RUnlock"):
				op := map[string]string{"Lock": "lock", "RLock": "rlock", "Unlock": "unlock", "RUnlock": "runlock"}[last]
				out = append(out, effect{op: op, arg: parts[len(parts)-2], src: t.src(x)})
			case len(parts) == 2 && parts[0] == t.recv && t.methods[t.spec.Recv+"."+last] != nil:
				m := t.methods[t.spec.Recv+"."+last]
				// admission gates: a designated test / mark call inside a designated function is an access
				// to a gate variable of its own (ws: the Listening test-and-set in Listen)
				if len(x.Args) <= 1 {
					a0 := ""
					if len(x.Args) == 1 {
						a0 = chain(x.Args[0])
					}
					if v := t.spec.GateCalls[t.curFn+":"+last+"("+a0+")"]; v != "" {
						out = append(out, effect{op: "write", arg: v, src: t.src(x)})
						t.facts["gate:"+v] = append(t.facts["gate:"+v], t.curFn+":"+last)
					}
				}
				out = append(out, effect{inline: m, inlineRecv: recvNameOf(m), src: t.src(x)})
			case len(parts) >= 2 && t.spec.WireOps[last] != "" && isUnderlying(parts, t.recv):
				// a call on the underlying connection object (ws: wsc.Conn.WriteMessage)
				t.facts["call:"+t.spec.WireOps[last]] = append(t.facts["call:"+t.spec.WireOps[last]], t.curFn)
				op := "write"
				if t.spec.WireOps[last] == "wsread" {
					op = "read" // exclusivity of the reader is a protocol invariant (Ws/Conn model), not a lock
				}
				out = append(out, effect{op: op, arg: t.spec.WireOps[last], src: t.src(x)})
			case t.mentionsConn(x):
				// any call that is handed the session's connection, or is made on it, uses the wire
				if sel, ok := x.Fun.(*ast.SelectorExpr); ok {
					visit(sel.X, false)
				}
				out = append(out, effect{op: "write", arg: "wire", src: t.src(x)})
			case len(parts) == 1 && t.funcs[fn] != nil && len(x.Args) == 0:
				out = append(out, effect{op: "other", arg: "call " + fn, src: t.src(x)})
			default:
				if sel, ok := x.Fun.(*ast.SelectorExpr); ok {
					visit(sel.X, false)
				}
				if _, ok := x.Fun.(*ast.FuncLit); ok {
					out = append(out, effect{op: "unknown", arg: "funclit call", src: t.src(x)})
				}
			}
		case *ast.SelectorExpr:
			c := chain(x)
			matched := false
			// longest designated field first
			keys := make([]string, 0, len(t.spec.Fields))
			for k := range t.spec.Fields {
				keys = append(keys, k)
			}
			sort.Slice(keys, func(i, j int) bool { return len(keys[i]) > len(keys[j]) })
			for _, k := range keys {
				full := t.recv + "." + k
				if c == full {
					// reading a.b.c reads a.b first
					if i := strings.LastIndex(k, "."); i >= 0 {
						if v, ok := t.spec.Fields[k[:i]]; ok {
							out = append(out, effect{op: "read", arg: v, src: c})
						}
					}
					out = append(out, effect{op: rw(lhs), arg: t.spec.Fields[k], src: c})
					matched = true
					break
				}
				if strings.HasPrefix(c, full+".") {
					out = append(out, effect{op: "read", arg: t.spec.Fields[k], src: c})
					matched = true
					break
				}
			}
			if !matched {
				visit(x.X, false)
			}
		case *ast.FuncLit:
			// closure value: not evaluated here
		case *ast.UnaryExpr:
			if x.Op == token.ARROW {
				out = append(out, effect{op: "other", arg: "chanRecv " + chain(x.X), src: t.src(x)})
			} else {
				visit(x.X, false)
			}
		case *ast.BinaryExpr:
			visit(x.X, false)
			visit(x.Y, false)
		case *ast.ParenExpr:
			visit(x.X, lhs)
		case *ast.StarExpr:
			visit(x.X, false)
		case *ast.CompositeLit:
			for _, el := range x.Elts {
				visit(el, false)
			}
		case *ast.KeyValueExpr:
			visit(x.Value, false)
		case *ast.IndexExpr:
			visit(x.X, false)
			visit(x.Index, false)
		case *ast.TypeAssertExpr:
			visit(x.X, false)
		case *ast.SliceExpr:
			visit(x.X, false)
		}
	}
	visit(e, lhs)
	return out
}

func at(p []string, i int) string {
	if i < 0 || i >= len(p) {
		return ""
	}
	return p[i]
}

// wsc.Conn.X(...) : a call on the embedded underlying connection
func isUnderlying(parts []string, recv string) bool {
	return len(parts) == 3 && parts[0] == recv && parts[1] == "Conn"
}

func recvNameOf(fd *ast.FuncDecl) string {
	if fd.Recv != nil && len(fd.Recv.List) > 0 && len(fd.Recv.List[0].Names) > 0 {
		return fd.Recv.List[0].Names[0].Name
	}
	return "_"
}

func rw(lhs bool) string {
	if lhs {
		return "write"
	}
	return "read"
}

type K func(c *ctx) int

func (t *T) runEffects(c *ctx, effs []effect, k K) int {
	if len(effs) == 0 {
		return k(c)
	}
	e := effs[0]
	rest := effs[1:]
	if e.inline != nil && len(c.h) == 0 && ast.IsExported(e.inline.Name.Name) {
		// calling an exported method while holding nothing is sequential composition: the callee is
		// checked as an entry of its own
		n := t.emit(c, "other", "call "+e.inline.Name.Name, e.src)
		t.code[n].Succ = []int{t.runEffects(c, rest, k)}
		return n
	}
	if e.inline != nil {
		if c.depth > 6 {
			n := t.emit(c, "unknown", "inline depth", e.src)
			t.code[n].Succ = []int{t.runEffects(c, rest, k)}
			return n
		}
		c2 := c.clone()
		c2.depth++
		savedRecv, savedLoops := t.recv, c2.loops
		t.recv = e.inlineRecv
		c2.loops = nil
		c2.frames = append(c2.frames, &frame{retK: func(c3 *ctx) int {
			c3.frames = c3.frames[:len(c3.frames)-1]
			c3.depth--
			c3.loops = savedLoops
			t.recv = savedRecv
			return t.runEffects(c3, rest, k)
		}})
		n := t.walkStmts(c2, e.inline.Body.List, func(c3 *ctx) int { return t.doReturn(c3, nil) })
		t.recv = savedRecv
		return n
	}
	n := t.emit(c, e.op, e.arg, e.src)
	switch e.op {
	case "lock":
		c.h[e.arg] = "ex"
	case "rlock":
		c.h[e.arg] = "sh"
	case "unlock", "runlock":
		delete(c.h, e.arg)
	}
	nx := t.runEffects(c, rest, k)
	t.code[n].Succ = []int{nx}
	return n
}

func (t *T) doReturn(c *ctx, results []ast.Expr) int {
	var effs []effect
	for _, r := range results {
		effs = append(effs, t.exprEffects(r, false)...)
	}
	f := c.frames[len(c.frames)-1]
	for i := len(f.defers) - 1; i >= 0; i-- {
		d := f.defers[i]
		if lit, ok := d.Fun.(*ast.FuncLit); ok {
			for _, s := range lit.Body.List {
				effs = append(effs, t.stmtEffectsFlat(s)...)
			}
		} else {
			effs = append(effs, t.exprEffects(d, false)...)
		}
	}
	return t.runEffects(c, effs, func(c2 *ctx) int {
		if f.retK != nil {
			return f.retK(c2)
		}
		return t.emit(c2, "ret", "", "return")
	})
}

func (t *T) noteTaint(lhs []ast.Expr, rhs []ast.Expr) {
	for i, l := range lhs {
		id, ok := l.(*ast.Ident)
		if !ok || id.Name == "_" {
			continue
		}
		var r ast.Expr
		if len(rhs) == len(lhs) {
			r = rhs[i]
		} else if len(rhs) == 1 {
			r = rhs[0]
		}
		if r != nil && (t.mentionsConn(r) || t.mentionsConnHolder(r)) {
			t.taint[id.Name] = true
		}
	}
}

func (t *T) stmtEffectsFlat(s ast.Stmt) []effect {
	switch x := s.(type) {
	case *ast.ExprStmt:
		return t.exprEffects(x.X, false)
	case *ast.AssignStmt:
		var e []effect
		for _, r := range x.Rhs {
			e = append(e, t.exprEffects(r, false)...)
		}
		for _, l := range x.Lhs {
			e = append(e, t.exprEffects(l, true)...)
		}
		t.noteTaint(x.Lhs, x.Rhs)
		return e
	case *ast.IncDecStmt:
		return append(t.exprEffects(x.X, false), t.exprEffects(x.X, true)...)
	case *ast.IfStmt:
		// inside a deferred closure: conditions only guard statements; take both (flat over-approximation is not
		// sound for locksets), so reject unless the body is lock-free
		var e []effect
		if x.Init != nil {
			e = append(e, t.stmtEffectsFlat(x.Init)...)
		}
		e = append(e, t.exprEffects(x.Cond, false)...)
		for _, b := range x.Body.List {
			for _, be := range t.stmtEffectsFlat(b) {
				if be.op == "lock" || be.op == "rlock" || be.op == "unlock" || be.op == "runlock" || be.inline != nil {
					return []effect{{op: "unknown", arg: "lock operation under a condition in a deferred closure", src: t.src(s)}}
				}
				e = append(e, be)
			}
		}
		if x.Else != nil {
			return []effect{{op: "unknown", arg: "else in a deferred closure", src: t.src(s)}}
		}
		return e
	}
	return []effect{{op: "unknown", arg: "stmt in deferred closure", src: t.src(s)}}
}

func (t *T) branch(c *ctx, src string, ks ...K) int {
	n := t.emit(c, "other", "branch", src)
	var succ []int
	for _, k := range ks {
		succ = append(succ, k(c.clone()))
	}
	t.code[n].Succ = succ
	return n
}

func (t *T) walkStmts(c *ctx, ss []ast.Stmt, k K) int {
	if len(ss) == 0 {
		return k(c)
	}
	s := ss[0]
	rest := func(c2 *ctx) int { return t.walkStmts(c2, ss[1:], k) }
	switch x := s.(type) {
	case *ast.ExprStmt:
		return t.runEffects(c, t.exprEffects(x.X, false), rest)
	case *ast.AssignStmt, *ast.IncDecStmt:
		return t.runEffects(c, t.stmtEffectsFlat(s), rest)
	case *ast.DeclStmt:
		if gd, ok := x.Decl.(*ast.GenDecl); ok {
			var effs []effect
			for _, sp := range gd.Specs {
				if vs, ok := sp.(*ast.ValueSpec); ok {
					for _, v := range vs.Values {
						effs = append(effs, t.exprEffects(v, false)...)
					}
				}
			}
			return t.runEffects(c, effs, rest)
		}
		return rest(c)
	case *ast.DeferStmt:
		f := c.frames[len(c.frames)-1]
		f.defers = append(f.defers, x.Call)
		return rest(c)
	case *ast.ReturnStmt:
		return t.doReturn(c, x.Results)
	case *ast.BlockStmt:
		return t.walkStmts(c, x.List, rest)
	case *ast.EmptyStmt:
		return rest(c)
	case *ast.LabeledStmt:
		return t.walkStmts(c, []ast.Stmt{x.Stmt}, rest)
	case *ast.IfStmt:
		var pre []effect
		if x.Init != nil {
			pre = append(pre, t.stmtEffectsFlat(x.Init)...)
		}
		pre = append(pre, t.exprEffects(x.Cond, false)...)
		return t.runEffects(c, pre, func(c2 *ctx) int {
			thenK := func(c3 *ctx) int { return t.walkStmts(c3, x.Body.List, rest) }
			elseK := rest
			if x.Else != nil {
				elseK = func(c3 *ctx) int { return t.walkStmts(c3, []ast.Stmt{x.Else}, rest) }
			}
			return t.branch(c2, "if "+t.src(x.Cond), thenK, elseK)
		})
	case *ast.GoStmt:
		n := t.emit(c, "other", "spawn", t.src(x))
		if lit, ok := x.Call.Fun.(*ast.FuncLit); ok {
			t.spawned = append(t.spawned, spawn{lit: lit, recv: t.recv, from: t.curFn})
		} else {
			fn := chain(x.Call.Fun)
			p := strings.Split(fn, ".")
			t.spawned = append(t.spawned, spawn{meth: p[len(p)-1], from: t.curFn})
			t.facts["spawn:"+p[len(p)-1]] = append(t.facts["spawn:"+p[len(p)-1]], t.curFn)
		}
		t.code[n].Succ = []int{rest(c)}
		return n
	case *ast.SendStmt:
		effs := t.exprEffects(x.Value, false)
		return t.runEffects(c, effs, func(c2 *ctx) int {
			n := t.emit(c2, "other", "chanSend "+chain(x.Chan), t.src(x))
			t.code[n].Succ = []int{rest(c2)}
			return n
		})
	case *ast.ForStmt, *ast.RangeStmt:
		var body *ast.BlockStmt
		var head []effect
		var post ast.Stmt
		var init ast.Stmt
		if f, ok := x.(*ast.ForStmt); ok {
			body = f.Body
			init, post = f.Init, f.Post
			if f.Cond != nil {
				head = t.exprEffects(f.Cond, false)
			}
		} else {
			r := x.(*ast.RangeStmt)
			body = r.Body
			head = append(t.exprEffects(r.X, false), effect{op: "other", arg: "range " + chain(r.X), src: "range " + t.src(r.X)})
		}
		var initE []effect
		if init != nil {
			initE = t.stmtEffectsFlat(init)
		}
		return t.runEffects(c, initE, func(c0 *ctx) int {
			hn := t.emit(c0, "other", "loophead", "for")
			entry := c0.h.canon()
			back := func(c4 *ctx) int {
				var pe []effect
				if post != nil {
					pe = t.stmtEffectsFlat(post)
				}
				return t.runEffects(c4, pe, func(c5 *ctx) int {
					if c5.h.canon() != entry {
						return t.emit(c5, "unknown", "lockset differs on back edge", "for")
					}
					return hn
				})
			}
			first := t.runEffects(c0, head, func(c2 *ctx) int {
				return t.branch(c2, "loop?", func(c3 *ctx) int {
					c3.loops = append(c3.loops, loopCtx{brk: func(cb *ctx) int {
						cb.loops = cb.loops[:len(cb.loops)-1]
						return rest(cb)
					}, cont: back})
					return t.walkStmts(c3, body.List, func(c4 *ctx) int {
						c4.loops = c4.loops[:len(c4.loops)-1]
						return back(c4)
					})
				}, rest)
			})
			t.code[hn].Succ = []int{first}
			return hn
		})
	case *ast.SelectStmt:
		var ks []K
		for _, cl := range x.Body.List {
			cc := cl.(*ast.CommClause)
			ks = append(ks, func(c3 *ctx) int {
				var effs []effect
				if cc.Comm != nil {
					effs = t.stmtEffectsFlat(cc.Comm)
				}
				return t.runEffects(c3, effs, func(c4 *ctx) int { return t.walkStmts(c4, cc.Body, rest) })
			})
		}
		return t.branch(c, "select", ks...)
	case *ast.SwitchStmt:
		var pre []effect
		if x.Init != nil {
			pre = append(pre, t.stmtEffectsFlat(x.Init)...)
		}
		if x.Tag != nil {
			pre = append(pre, t.exprEffects(x.Tag, false)...)
		}
		return t.runEffects(c, pre, func(c2 *ctx) int {
			var ks []K
			hasDefault := false
			for _, cl := range x.Body.List {
				cc := cl.(*ast.CaseClause)
				if cc.List == nil {
					hasDefault = true
				}
				ks = append(ks, func(c3 *ctx) int {
					var effs []effect
					for _, e := range cc.List {
						effs = append(effs, t.exprEffects(e, false)...)
					}
					return t.runEffects(c3, effs, func(c4 *ctx) int { return t.walkStmts(c4, cc.Body, rest) })
				})
			}
			if !hasDefault {
				ks = append(ks, rest)
			}
			return t.branch(c2, "switch", ks...)
		})
	case *ast.BranchStmt:
		if x.Label == nil && len(c.loops) > 0 {
			l := c.loops[len(c.loops)-1]
			if x.Tok == token.BREAK {
				return l.brk(c)
			}
			if x.Tok == token.CONTINUE {
				return l.cont(c)
			}
		}
		return t.emit(c, "unknown", "branch stmt "+x.Tok.String(), t.src(x))
	default:
		n := t.emit(c, "unknown", fmt.Sprintf("%T", s), t.src(s))
		t.code[n].Succ = []int{rest(c)}
		return n
	}
}

func parseDir(fset *token.FileSet, dir string) (map[string]*ast.FuncDecl, map[string]*ast.FuncDecl, []*ast.File) {
	pkgs, err := parser.ParseDir(fset, dir, func(fi os.FileInfo) bool {
		n := fi.Name()
		return !strings.HasSuffix(n, "_test.go") && !strings.HasPrefix(n, "verif_")
	}, 0)
	if err != nil {
		fmt.Fprintln(os.Stderr, "parse:", err)
		os.Exit(1)
	}
	methods := map[string]*ast.FuncDecl{}
	funcs := map[string]*ast.FuncDecl{}
	var files []*ast.File
	for _, p := range pkgs {
		for _, f := range p.Files {
			files = append(files, f)
			for _, d := range f.Decls {
				fd, ok := d.(*ast.FuncDecl)
				if !ok || fd.Body == nil {
					continue
				}
				if fd.Recv == nil {
					funcs[fd.Name.Name] = fd
					continue
				}
				ty := fd.Recv.List[0].Type
				if s, ok := ty.(*ast.StarExpr); ok {
					ty = s.X
				}
				if id, ok := ty.(*ast.Ident); ok {
					methods[id.Name+"."+fd.Name.Name] = fd
				}
			}
		}
	}
	return methods, funcs, files
}

// translate one type: all exported methods + spawned goroutines behind a dispatcher at node 0
func translate(repo string, spec *TypeSpec) ([]Instr, []string, map[string][]string) {
	fset := token.NewFileSet()
	methods, funcs, _ := parseDir(fset, filepath.Join(repo, spec.Dir))
	var names []string
	for k, fd := range methods {
		if strings.HasPrefix(k, spec.Recv+".") && ast.IsExported(fd.Name.Name) {
			names = append(names, k)
		}
	}
	sort.Strings(names)
	t := &T{fset: fset, methods: methods, funcs: funcs, spec: spec, facts: map[string][]string{}}
	t.code = append(t.code, Instr{Op: "other", Arg: "dispatch", Src: "any goroutine may call any exported method"})
	var entries []int
	var entryNames []string
	runEntry := func(label string, recv string, body []ast.Stmt) {
		t.recv = recv
		t.taint = map[string]bool{}
		t.curFn = label
		c := &ctx{h: held{}, frames: []*frame{{}}}
		e := t.walkStmts(c, body, func(c2 *ctx) int { return t.doReturn(c2, nil) })
		entries = append(entries, e)
		entryNames = append(entryNames, label)
	}
	for _, name := range names {
		fd := methods[name]
		runEntry(strings.TrimPrefix(name, spec.Recv+"."), recvNameOf(fd), fd.Body.List)
	}
	// goroutines spawned by the methods run concurrently with everything, holding nothing at their start
	done := map[string]bool{}
	for i := 0; i < len(t.spawned); i++ {
		sp := t.spawned[i]
		if sp.lit != nil {
			runEntry(fmt.Sprintf("go func literal in %s", sp.from), sp.recv, sp.lit.Body.List)
		} else if fd := methods[spec.Recv+"."+sp.meth]; fd != nil && !done[sp.meth] {
			done[sp.meth] = true
			runEntry("go "+sp.meth, recvNameOf(fd), fd.Body.List)
		}
	}
	t.code[0].Succ = entries
	// frame-writing / frame-reading calls on the underlying connection anywhere else in the package (constructors and
	// the closures they install as handlers, methods of other types): those are not nodes of the graph above, so no
	// lock is known to be held around them
	// plain stores to a designated state word (x.f = e, as opposed to x.f |= e / x.f ^= e): a value computed from an
	// earlier snapshot overwrites what other goroutines changed in between, whatever lock is held around the store
	for field := range spec.Fields {
		if strings.Contains(field, ".") || spec.Fields[field] != "connState" {
			continue
		}
		key := "plainstore:" + field
		t.facts[key] = []string{}
		for name, fd := range methods {
			if !strings.HasPrefix(name, spec.Recv+".") {
				continue
			}
			rn := recvNameOf(fd)
			ast.Inspect(fd.Body, func(n ast.Node) bool {
				as, ok := n.(*ast.AssignStmt)
				if !ok || as.Tok != token.ASSIGN {
					return true
				}
				for i, l := range as.Lhs {
					if chain(l) != rn+"."+field {
						continue
					}
					// x.f = x.f | e is a read-modify-write inside one statement, not a store of a snapshot
					selfRef := false
					if i < len(as.Rhs) {
						ast.Inspect(as.Rhs[i], func(m ast.Node) bool {
							if se, ok := m.(*ast.SelectorExpr); ok && chain(se) == rn+"."+field {
								selfRef = true
							}
							return !selfRef
						})
					}
					if !selfRef {
						t.facts[key] = append(t.facts[key], strings.TrimPrefix(name, spec.Recv+"."))
					}
				}
				return true
			})
		}
	}
	if len(spec.WireOps) > 0 {
		t.facts["outside:wire"] = []string{}
		scan := func(label string, fd *ast.FuncDecl) {
			ast.Inspect(fd.Body, func(n ast.Node) bool {
				ce, ok := n.(*ast.CallExpr)
				if !ok {
					return true
				}
				if se, ok := ce.Fun.(*ast.SelectorExpr); ok {
					if _, isWire := spec.WireOps[se.Sel.Name]; isWire {
						t.facts["outside:wire"] = append(t.facts["outside:wire"], label+":"+se.Sel.Name)
					}
				}
				return true
			})
		}
		for name, fd := range funcs {
			scan(name, fd)
		}
		for k, fd := range methods {
			if !strings.HasPrefix(k, spec.Recv+".") {
				scan(k, fd)
			}
		}
	}
	return t.code, entryNames, t.facts
}

// drop "other" nodes with exactly one successor (they carry no obligation); keeps node 0
func compress(code []Instr) []Instr {
	n := len(code)
	target := make([]int, n)
	for i := range target {
		target[i] = i
	}
	var resolve func(i int, depth int) int
	resolve = func(i int, depth int) int {
		if depth > n {
			return i
		}
		in := code[i]
		if i != 0 && in.Op == "other" && len(in.Succ) == 1 && in.Succ[0] != i && code[in.Succ[0]].Held == in.Held {
			return resolve(in.Succ[0], depth+1)
		}
		return i
	}
	for i := range code {
		target[i] = resolve(i, 0)
	}
	keep := map[int]int{}
	var out []Instr
	// reachable from 0 after redirect
	var order []int
	seen := map[int]bool{}
	var dfs func(i int)
	dfs = func(i int) {
		i = target[i]
		if seen[i] {
			return
		}
		seen[i] = true
		order = append(order, i)
		for _, s := range code[i].Succ {
			dfs(s)
		}
	}
	dfs(0)
	for k, i := range order {
		keep[i] = k
	}
	for _, i := range order {
		in := code[i]
		var succ []int
		for _, s := range in.Succ {
			succ = append(succ, keep[target[s]])
		}
		in.Succ = succ
		out = append(out, in)
	}
	return out
}

func leanProg(name string, spec *TypeSpec, code []Instr, entryNames []string, facts map[string][]string) string {
	var b strings.Builder
	fmt.Fprintf(&b, "/-- regenerated from %s (type %s); %d nodes; entries of node 0: %s -/\n", spec.Dir, spec.Recv, len(code), strings.Join(entryNames, ", "))
	fmt.Fprintf(&b, "def %s : Prog := {\n  code := [\n", name)
	unknown := 0
	for i, in := range code {
		var op string
		switch in.Op {
		case "lock", "rlock", "unlock", "runlock":
			op = fmt.Sprintf(".%s %d", in.Op, spec.Locks[in.Arg])
		case "read", "write":
			v, ok := spec.Vars[in.Arg]
			if !ok {
				op = ".unknown"
			} else {
				op = fmt.Sprintf(".%s %d", in.Op, v)
			}
		case "ret":
			op = ".ret"
		case "unknown":
			op = ".unknown"
			unknown++
		default:
			op = ".other"
		}
		succ := []string{}
		for _, s := range in.Succ {
			succ = append(succ, strconv.Itoa(s))
		}
		sep := ","
		if i == len(code)-1 {
			sep = ""
		}
		src := strings.ReplaceAll(strings.ReplaceAll(in.Src, "-/", "- /"), "\n", " ")
		if r := []rune(src); len(r) > 70 {
			src = string(r[:70])
		}
		fmt.Fprintf(&b, "    ⟨%s, [%s]⟩%s  -- %d %s %s | %s\n", op, strings.Join(succ, ", "), sep, i, in.Op, in.Arg, src)
	}
	b.WriteString("  ],\n  annot := [\n")
	for i, in := range code {
		hs := []string{}
		if in.Held != "" {
			for _, kv := range strings.Split(in.Held, ",") {
				p := strings.Split(kv, ":")
				hs = append(hs, fmt.Sprintf("(%d, .%s)", spec.Locks[p[0]], p[1]))
			}
		}
		sep := ","
		if i == len(code)-1 {
			sep = ""
		}
		fmt.Fprintf(&b, "    [%s]%s\n", strings.Join(hs, ", "), sep)
	}
	fmt.Fprintf(&b, "  ],\n  policy := FV.Protect.%sPolicy }\n\n", name)
	// facts
	keys := []string{}
	for k := range facts {
		keys = append(keys, k)
	}
	sort.Strings(keys)
	for _, k := range keys {
		vals := facts[k]
		sort.Strings(vals)
		// dedupe
		var u []string
		for _, v := range vals {
			if len(u) == 0 || u[len(u)-1] != v {
				u = append(u, v)
			}
		}
		q := make([]string, len(u))
		for i, v := range u {
			q[i] = strconv.Quote(v)
		}
		fmt.Fprintf(&b, "/-- functions containing `%s` -/\ndef %s_%s : List String := [%s]\n\n", k, name, strings.NewReplacer(":", "_", ".", "_").Replace(k), strings.Join(q, ", "))
	}
	// witness schedules (goroutine 0 alone): start a call, then one scheduler decision per edge of the shortest path
	for _, ws := range spec.Witness {
		holds := func(in Instr) bool {
			h := map[string]string{}
			if in.Held != "" {
				for _, kv := range strings.Split(in.Held, ",") {
					p := strings.Split(kv, ":")
					h[p[0]] = p[1]
				}
			}
			for l, m := range ws.Need {
				if h[l] != m {
					return false
				}
			}
			return true
		}
		type qe struct {
			node int
			path []int
		}
		seen := map[int]bool{0: true}
		queue := []qe{{0, nil}}
		var found []int
		ok := false
		for len(queue) > 0 && !ok {
			e := queue[0]
			queue = queue[1:]
			in := code[e.node]
			if (in.Op == "read" || in.Op == "write") && in.Arg == ws.Var && holds(in) {
				found, ok = e.path, true
				break
			}
			for ci, nx := range in.Succ {
				if !seen[nx] {
					seen[nx] = true
					queue = append(queue, qe{nx, append(append([]int{}, e.path...), ci)})
				}
			}
		}
		steps := []string{"(0, 0)"}
		for _, c := range found {
			steps = append(steps, fmt.Sprintf("(0, %d)", c))
		}
		if !ok {
			steps = nil
		}
		fmt.Fprintf(&b, "/-- witness schedule `%s`: goroutine 0 from the dispatcher to an access of `%s` holding %v (empty: no such node) -/\ndef %s_witness_%s : List (Nat × Nat) := [%s]\n\n",
			ws.Name, ws.Var, ws.Need, name, ws.Name, strings.Join(steps, ", "))
	}
	return b.String()
}

// ---- constants ----------------------------------------------------------------------------------

func constants(repo string) string {
	fset := token.NewFileSet()
	var b strings.Builder
	want := map[string]bool{"OptSize": true, "OptChunk": true, "OptCompressed": true, "OptValGZIP": true, "extensionType": true,
		"eventTimeLen": true, "MsgTypeHelo": true, "MsgTypePing": true, "MsgTypePong": true}
	found := map[string]string{}
	for _, dir := range []string{"fluent/protocol"} {
		_, _, files := parseDir(fset, filepath.Join(repo, dir))
		for _, f := range files {
			for _, d := range f.Decls {
				gd, ok := d.(*ast.GenDecl)
				if !ok || gd.Tok != token.CONST {
					continue
				}
				for _, sp := range gd.Specs {
					vs := sp.(*ast.ValueSpec)
					for i, n := range vs.Names {
						if want[n.Name] && i < len(vs.Values) {
							if bl, ok := vs.Values[i].(*ast.BasicLit); ok {
								found[n.Name] = bl.Value
							}
						}
					}
				}
			}
		}
	}
	keys := []string{}
	for k := range want {
		keys = append(keys, k)
	}
	sort.Strings(keys)
	for _, k := range keys {
		v, ok := found[k]
		if !ok {
			fmt.Fprintf(&b, "-- constant %s not found in the source\ndef %s : Option (List UInt8) := none\n", k, k)
			continue
		}
		if strings.HasPrefix(v, "\"") {
			s, _ := strconv.Unquote(v)
			bs := make([]string, len(s))
			for i := 0; i < len(s); i++ {
				bs[i] = fmt.Sprintf("0x%02x", s[i])
			}
			fmt.Fprintf(&b, "def %s : List UInt8 := [%s]  -- %s\n", k, strings.Join(bs, ", "), v)
		} else {
			fmt.Fprintf(&b, "def %s : Nat := %s\n", k, v)
		}
	}
	return b.String()
}

// ---- count-sized allocation sites -----------------------------------------------------------------

// sizeBounded: the size argument of a make call is a constant, a len(…)/cap(…) of existing data, or arithmetic
// over such terms (including library helpers applied to them, e.g. hex.EncodedLen(len(sum)))
var pkgConsts = map[string]bool{}

func sizeBounded(e ast.Expr) bool {
	switch x := e.(type) {
	case *ast.BasicLit:
		return true
	case *ast.Ident:
		return pkgConsts[x.Name] // a named constant of the package
	case *ast.ParenExpr:
		return sizeBounded(x.X)
	case *ast.BinaryExpr:
		return sizeBounded(x.X) && sizeBounded(x.Y)
	case *ast.CallExpr:
		if id, ok := x.Fun.(*ast.Ident); ok && (id.Name == "len" || id.Name == "cap") {
			return true
		}
		if len(x.Args) == 0 {
			return false
		}
		for _, a := range x.Args {
			if !sizeBounded(a) {
				return false
			}
		}
		return true
	}
	return false
}

// allocSites lists, for the protocol package, every `make(T, n…)` whose size is not bounded by existing data:
// "file:func:type:size".  These are the places where a count taken from the input can size an allocation.
func allocSites(repo string) string {
	fset := token.NewFileSet()
	_, _, files := parseDir(fset, filepath.Join(repo, "fluent/protocol"))
	for _, f := range files {
		for _, d := range f.Decls {
			if gd, ok := d.(*ast.GenDecl); ok && gd.Tok == token.CONST {
				for _, sp := range gd.Specs {
					for _, n := range sp.(*ast.ValueSpec).Names {
						pkgConsts[n.Name] = true
					}
				}
			}
		}
	}
	var sites []string
	for _, f := range files {
		fname := filepath.Base(fset.Position(f.Pos()).Filename)
		for _, d := range f.Decls {
			fd, ok := d.(*ast.FuncDecl)
			if !ok || fd.Body == nil {
				continue
			}
			name := fd.Name.Name
			if fd.Recv != nil && len(fd.Recv.List) > 0 {
				t := fd.Recv.List[0].Type
				if st, ok := t.(*ast.StarExpr); ok {
					t = st.X
				}
				if id, ok := t.(*ast.Ident); ok {
					name = id.Name + "." + name
				}
			}
			ast.Inspect(fd.Body, func(n ast.Node) bool {
				ce, ok := n.(*ast.CallExpr)
				if !ok {
					return true
				}
				id, ok := ce.Fun.(*ast.Ident)
				if !ok || id.Name != "make" || len(ce.Args) < 2 {
					return true
				}
				for _, a := range ce.Args[1:] {
					if !sizeBounded(a) {
						var tb, sb strings.Builder
						printer.Fprint(&tb, fset, ce.Args[0])
						printer.Fprint(&sb, fset, a)
						sites = append(sites, fmt.Sprintf("%s:%s:%s:%s", fname, name, tb.String(), sb.String()))
						break
					}
				}
				return true
			})
		}
	}
	sort.Strings(sites)
	var b strings.Builder
	b.WriteString("def protocolCountSizedMakes : List String := [")
	for i, s := range sites {
		if i > 0 {
			b.WriteString(", ")
		}
		b.WriteString(strconv.Quote(s))
	}
	b.WriteString("]\n")
	return b.String()
}

func main() {
	if len(os.Args) < 3 {
		fmt.Fprintln(os.Stderr, "usage: fvtranslate <repo> <outdir>")
		os.Exit(2)
	}
	repo, out := os.Args[1], os.Args[2]
	os.MkdirAll(out, 0o755)
	specs := []*TypeSpec{
		{Dir: "fluent/client", Recv: "Client", Out: "client",
			Locks:   map[string]int{"sessionLock": 0, "ackLock": 1},
			Vars:    map[string]int{"session": 0, "transport": 1, "wire": 2},
			Fields:  map[string]string{"session": "session", "session.TransportPhase": "transport"},
			ConnSel: []string{"session.Connection"},
			Witness: []WitnessSpec{{Name: "sendSection", Var: "wire", Need: map[string]string{"ackLock": "ex", "sessionLock": "sh"}}}},
		{Dir: "fluent/client", Recv: "WSClient", Out: "wsClient",
			Locks:  map[string]int{"sessionLock": 0, "errLock": 2},
			Vars:   map[string]int{"session": 0, "err": 3},
			Fields: map[string]string{"session": "session", "err": "err"}},
		{Dir: "fluent/client/ws", Recv: "connection", Out: "wsConn",
			Locks: map[string]int{"closeLock": 3, "listenLock": 4, "writeLock": 5, "stateLock": 6},
			Vars:  map[string]int{"connState": 4, "wswrite": 5, "wsread": 6, "listenGate": 7, "closeGate": 8},
			GateCalls: map[string]string{"Listen:hasConnState(ConnStateListening)": "listenGate",
				"Listen:setConnState(ConnStateListening)": "listenGate",
				"CloseWithMsg:Closed()":                   "closeGate", "CloseWithMsg:unsetConnState(ConnStateOpen)": "closeGate"},
			Fields: map[string]string{"connState": "connState"},
			// every method of the underlying websocket connection that writes frames / reads frames
			WireOps: map[string]string{"WriteMessage": "wswrite", "NextWriter": "wswrite", "WriteControl": "wswrite",
				"WritePreparedMessage": "wswrite", "WriteJSON": "wswrite",
				"ReadMessage": "wsread", "NextReader": "wsread", "ReadJSON": "wsread"},
			Witness: []WitnessSpec{{Name: "writeSection", Var: "wswrite", Need: map[string]string{"writeLock": "ex"}}}},
	}
	var body strings.Builder
	body.WriteString("import FluentVerif.Conc.Protect\n/-! GENERATED by /verif/translator from /repo's working tree — do not edit.  Regenerated on every check run. -/\nset_option maxRecDepth 100000\nnamespace FV.Gen\nopen FV.Lk\n\n")
	for _, sp := range specs {
		code, names, facts := translate(repo, sp)
		code = compress(code)
		body.WriteString(leanProg(sp.Out, sp, code, names, facts))
	}
	body.WriteString("end FV.Gen\n")
	if err := os.WriteFile(filepath.Join(out, "Sync.lean"), []byte(body.String()), 0o644); err != nil {
		fmt.Fprintln(os.Stderr, err)
		os.Exit(1)
	}
	if err := os.WriteFile(filepath.Join(out, "WsConn.lean"), []byte(wsConnBodies(repo)), 0o644); err != nil {
		fmt.Fprintln(os.Stderr, err)
		os.Exit(1)
	}
	if err := os.WriteFile(filepath.Join(out, "Ctors.lean"), []byte(ctorSkeletons(repo)), 0o644); err != nil {
		fmt.Fprintln(os.Stderr, err)
		os.Exit(1)
	}
	if err := os.WriteFile(filepath.Join(out, "Handshake.lean"), []byte(handshakeSkeletons(repo)), 0o644); err != nil {
		fmt.Fprintln(os.Stderr, err)
		os.Exit(1)
	}
	if err := os.WriteFile(filepath.Join(out, "Transport.lean"), []byte(transportSkeletons(repo)), 0o644); err != nil {
		fmt.Fprintln(os.Stderr, err)
		os.Exit(1)
	}
	if err := os.WriteFile(filepath.Join(out, "WsClient.lean"), []byte(wsClientSkeletons(repo)), 0o644); err != nil {
		fmt.Fprintln(os.Stderr, err)
		os.Exit(1)
	}
	if err := os.WriteFile(filepath.Join(out, "Chunk.lean"), []byte(chunkSkeleton(repo)), 0o644); err != nil {
		fmt.Fprintln(os.Stderr, err)
		os.Exit(1)
	}
	if err := os.WriteFile(filepath.Join(out, "Client.lean"), []byte(clientSkeletons(repo)), 0o644); err != nil {
		fmt.Fprintln(os.Stderr, err)
		os.Exit(1)
	}
	if err := os.WriteFile(filepath.Join(out, "Codec.lean"), []byte(codecSkeletons(repo)), 0o644); err != nil {
		fmt.Fprintln(os.Stderr, err)
		os.Exit(1)
	}
	consts := "/-! GENERATED by /verif/translator from /repo's working tree — do not edit. -/\nnamespace FV.Gen.Consts\n\n" + constants(repo) + "\n" + allocSites(repo) + "\nend FV.Gen.Consts\n"
	if err := os.WriteFile(filepath.Join(out, "Consts.lean"), []byte(consts), 0o644); err != nil {
		fmt.Fprintln(os.Stderr, err)
		os.Exit(1)
	}
}
