package main

// Decoder skeletons (Gen/Codec.lean): the bodies of the hand-written decoders of fluent/protocol, statement by
// statement, in the statement language of lean/FluentVerif/Sk/Interp.lean.  Nothing is dropped: a statement that does
// not have one of the shapes below becomes `.unknown "<source>"`, which the interpreter evaluates to a panic, so the
// equality theorems of Tie/Codec.lean fail.

import (
	"fmt"
	"go/ast"
	"go/printer"
	"go/token"
	"path/filepath"
	"regexp"
	"strconv"
	"strings"
)

type skCtx struct {
	fset    *token.FileSet
	recv    string // receiver variable
	in      string // `bits` (UnmarshalMsg) or the *msgp.Reader (DecodeMsg)
	stream  bool
	errCtx  bool              // inside `if t, err := dc.NextType(); … || err != nil {`: `err` is that call's error
	ftypes  map[string]string // field name -> declared type (source text)
	szNames map[string]bool
	named   bool   // msgp-generated style: named results, bare returns
	resName string // slice path, named results: the name of the []byte result (`o`)
	deep    bool   // accept recv.Field.Sub as a field
	elemIdx string // inside `for i := range *z`: the index variable; `(*z)[i].Field` is the element's field
	listLvl bool   // the body of an EntryList method: the resize statement and the range loop are statements of their own
	top     bool   // the function body itself, not a nested block
	last    bool   // the statement is the last one of its block
}

func (c *skCtx) inner() *skCtx { c2 := *c; c2.top = false; return &c2 }

func (c *skCtx) src(n ast.Node) string {
	var b strings.Builder
	printer.Fprint(&b, c.fset, n)
	s := strings.Join(strings.Fields(b.String()), " ")
	if len(s) > 160 {
		s = s[:160] + "…"
	}
	return s
}

func leanStr(s string) string {
	return strconv.Quote(s)
}

func (c *skCtx) unknown(n ast.Node) string { return ".unknown " + leanStr(c.src(n)) }

var knownFields = map[string]bool{"Tag": true, "Timestamp": true, "Record": true, "Options": true, "Entries": true, "EventStream": true,
	"MessageType": true, "ClientHostname": true, "SharedKeySalt": true, "SharedKeyHexDigest": true, "Username": true, "Password": true,
	"AuthResult": true, "Reason": true, "ServerHostname": true, "Nonce": true, "Auth": true, "Keepalive": true, "Ack": true,
	"Options.Nonce": true, "Options.Auth": true, "Options.Keepalive": true, "Size": true, "Chunk": true, "Compressed": true, "*Size": true}

func fld(name string) string {
	if knownFields[name] {
		if name == "*Size" {
			return ".SizeDeref"
		}
		return "." + strings.ReplaceAll(name, ".", "")
	}
	return "(.other " + leanStr(name) + ")"
}

// recv.Field; with c.deep also recv.Field.Sub (msgp inlines the encoder of a pointed-to struct), named "Field.Sub"
func (c *skCtx) recvField(e ast.Expr) (string, bool) {
	se, ok := e.(*ast.SelectorExpr)
	if !ok {
		return "", false
	}
	id, ok := se.X.(*ast.Ident)
	if ok && id.Name == c.recv {
		return se.Sel.Name, true
	}
	if c.deep {
		if in, isIn := se.X.(*ast.SelectorExpr); isIn && isIdent(in.X, c.recv) {
			return in.Sel.Name + "." + se.Sel.Name, true
		}
	}
	if c.elemIdx != "" { // (*z)[i].Field / z[i].Field
		if ix, isIx := se.X.(*ast.IndexExpr); isIx && isIdent(ix.Index, c.elemIdx) && c.isRecvList(ix.X) {
			return se.Sel.Name, true
		}
	}
	return "", false
}

// the receiver as a list: `z`, `*z`, `(*z)`
func (c *skCtx) isRecvList(e ast.Expr) bool {
	if pe, ok := e.(*ast.ParenExpr); ok {
		e = pe.X
	}
	if st, ok := e.(*ast.StarExpr); ok {
		e = st.X
	}
	return isIdent(e, c.recv)
}

// `if cap((*z)) >= int(n) { (*z) = (*z)[:n] } else { (*z) = make(EntryList, n) }`
func (c *skCtx) isResize(st *ast.IfStmt) bool {
	cond, ok := st.Cond.(*ast.BinaryExpr)
	if !ok || st.Init != nil || cond.Op != token.GEQ {
		return false
	}
	capc, ok := cond.X.(*ast.CallExpr)
	if !ok || !isIdent(capc.Fun, "cap") || len(capc.Args) != 1 || !c.isRecvList(capc.Args[0]) {
		return false
	}
	conv, ok := cond.Y.(*ast.CallExpr)
	if !ok || !isIdent(conv.Fun, "int") || len(conv.Args) != 1 || !isSzVar(conv.Args[0]) {
		return false
	}
	n := conv.Args[0].(*ast.Ident).Name
	eb, ok := st.Else.(*ast.BlockStmt)
	if !ok || len(st.Body.List) != 1 || len(eb.List) != 1 {
		return false
	}
	a1, ok1 := st.Body.List[0].(*ast.AssignStmt)
	a2, ok2 := eb.List[0].(*ast.AssignStmt)
	if !ok1 || !ok2 || len(a1.Lhs) != 1 || len(a2.Lhs) != 1 || len(a1.Rhs) != 1 || len(a2.Rhs) != 1 || !c.isRecvList(a1.Lhs[0]) || !c.isRecvList(a2.Lhs[0]) {
		return false
	}
	sl, ok := a1.Rhs[0].(*ast.SliceExpr)
	if !ok || sl.Low != nil || sl.Max != nil || !isIdent(sl.High, n) || !c.isRecvList(sl.X) {
		return false
	}
	mk, ok := a2.Rhs[0].(*ast.CallExpr)
	return ok && isIdent(mk.Fun, "make") && len(mk.Args) == 2 && isIdent(mk.Args[0], "EntryList") && isIdent(mk.Args[1], n)
}

var zbName = regexp.MustCompile(`^zb[0-9]+$`)

// the count variable: `sz` in the hand-written decoders, `zb0001` … in msgp-generated code
func isSzVar(e ast.Expr) bool {
	id, ok := e.(*ast.Ident)
	return ok && (id.Name == "sz" || zbName.MatchString(id.Name))
}

func isIdent(e ast.Expr, name string) bool {
	id, ok := e.(*ast.Ident)
	return ok && id.Name == name
}

func isSel(e ast.Expr, x, sel string) bool {
	se, ok := e.(*ast.SelectorExpr)
	return ok && isIdent(se.X, x) && se.Sel.Name == sel
}

// primCall recognises a call of a read primitive or a nested decoder on the current input.
// Returns the primitive, the destination field the call itself names ("" if none), ok.
func (c *skCtx) primCall(e ast.Expr) (prim string, dst string, ok bool) {
	call, isCall := e.(*ast.CallExpr)
	if !isCall {
		return "", "", false
	}
	se, isSe := call.Fun.(*ast.SelectorExpr)
	if !isSe {
		return "", "", false
	}
	name := se.Sel.Name
	args := call.Args
	// nested decoder: recv.Field.UnmarshalMsg(bits) / recv.Field.DecodeMsg(dc)
	if f, isF := c.recvField(se.X); isF {
		want := "UnmarshalMsg"
		if c.stream {
			want = "DecodeMsg"
		}
		if name != want || len(args) != 1 || !isIdent(args[0], c.in) {
			return "", "", false
		}
		switch strings.TrimSpace(c.ftypes[f]) {
		case "*MessageOptions":
			return ".options", f, true
		case "EntryList":
			return ".entryList", f, true
		}
		return "", "", false
	}
	var table map[string]string
	if c.stream {
		if !isIdent(se.X, c.in) {
			return "", "", false
		}
		table = map[string]string{"ReadArrayHeader": ".arrayHeader", "ReadString": ".str", "ReadInt64": ".int64", "ReadIntf": ".intf",
			"ReadExtension": ".eventTime", "ReadBytes": ".bin", "ReadNil": ".nil", "ReadBool": ".bool", "ReadMapHeader": ".mapHeader",
			"ReadInt": ".int64", "Skip": ".skip"}
	} else {
		if !isIdent(se.X, "msgp") {
			return "", "", false
		}
		table = map[string]string{"ReadArrayHeaderBytes": ".arrayHeader", "ReadStringBytes": ".str", "ReadInt64Bytes": ".int64",
			"ReadIntfBytes": ".intf", "ReadExtensionBytes": ".eventTime", "ReadBytesBytes": ".bin", "ReadNilBytes": ".nil", "ReadBoolBytes": ".bool",
			"ReadMapHeaderBytes": ".mapHeader", "ReadIntBytes": ".int64", "Skip": ".skip"}
		if len(args) == 0 || !isIdent(args[0], c.in) {
			return "", "", false
		}
		args = args[1:]
	}
	p, found := table[name]
	if !found {
		return "", "", false
	}
	switch p {
	case ".eventTime": // (&recv.Field) of type EventTime
		if len(args) != 1 {
			return "", "", false
		}
		ue, isU := args[0].(*ast.UnaryExpr)
		if !isU || ue.Op != token.AND {
			return "", "", false
		}
		f, isF := c.recvField(ue.X)
		if !isF || strings.TrimSpace(c.ftypes[f]) != "EventTime" {
			return "", "", false
		}
		return p, f, true
	case ".bin": // scratch argument: nil or a field of the receiver (its old contents do not matter)
		if len(args) != 1 {
			return "", "", false
		}
		if _, isF := c.recvField(args[0]); !isF && !isIdent(args[0], "nil") {
			return "", "", false
		}
		return p, "", true
	default:
		if len(args) != 0 {
			return "", "", false
		}
		return p, "", true
	}
}

// lhsDst: the left-hand sides of an assignment whose right-hand side is a primitive call must be
// [dst,] bits, err (slice) or [dst,] err (stream)
func (c *skCtx) lhsDst(lhs []ast.Expr, tok token.Token) (dst string, ok bool) {
	n := len(lhs)
	tail := 2
	if c.stream {
		tail = 1
	}
	if n < tail || n > tail+1 {
		return "", false
	}
	if !isIdent(lhs[n-1], "err") {
		return "", false
	}
	if !c.stream && !isIdent(lhs[n-2], c.in) {
		return "", false
	}
	if n == tail {
		return "", true
	}
	if _, isId := lhs[0].(*ast.Ident); isId {
		if isSzVar(lhs[0]) {
			return "sz", true
		}
		return "", false
	}
	if f, isF := c.recvField(lhs[0]); isF {
		return f, true
	}
	if st, isSt := lhs[0].(*ast.StarExpr); isSt { // *recv.Field = …
		if f, isF := c.recvField(st.X); isF && strings.HasPrefix(strings.TrimSpace(c.ftypes[f]), "*") {
			return "*" + f, true
		}
	}
	return "", false
}

// carriesErr: `return [bits,] err` or `return [bits,] msgp.WrapError(err, …)`
func (c *skCtx) returnsErr(s ast.Stmt) bool {
	r, ok := s.(*ast.ReturnStmt)
	if !ok {
		return false
	}
	want := 2
	if c.stream {
		want = 1
	}
	if len(r.Results) != want {
		return false
	}
	if !c.stream && !isIdent(r.Results[0], c.in) {
		return false
	}
	last := r.Results[want-1]
	if isIdent(last, "err") {
		return true
	}
	if call, isCall := last.(*ast.CallExpr); isCall && isSel(call.Fun, "msgp", "WrapError") && len(call.Args) >= 1 && isIdent(call.Args[0], "err") {
		return true
	}
	return false
}

// errBody: the body of an `if err != nil`: one return that carries err, or (named results) `[err = msgp.WrapError(err, …);] return`
func (c *skCtx) errBody(b *ast.BlockStmt) bool {
	if b == nil {
		return false
	}
	l := b.List
	if len(l) == 1 && c.returnsErr(l[0]) {
		return true
	}
	if !c.named {
		return false
	}
	if len(l) == 2 {
		as, ok := l[0].(*ast.AssignStmt)
		if !ok || len(as.Lhs) != 1 || len(as.Rhs) != 1 || !isIdent(as.Lhs[0], "err") || as.Tok != token.ASSIGN {
			return false
		}
		call, ok := as.Rhs[0].(*ast.CallExpr)
		if !ok || !isSel(call.Fun, "msgp", "WrapError") || len(call.Args) < 1 || !isIdent(call.Args[0], "err") {
			return false
		}
		l = l[1:]
	}
	if len(l) != 1 {
		return false
	}
	r, ok := l[0].(*ast.ReturnStmt)
	return ok && len(r.Results) == 0
}

func isErrNotNil(e ast.Expr) bool {
	be, ok := e.(*ast.BinaryExpr)
	return ok && be.Op == token.NEQ && isIdent(be.X, "err") && isIdent(be.Y, "nil")
}

func onlyStmt(b *ast.BlockStmt) ast.Stmt {
	if b == nil || len(b.List) != 1 {
		return nil
	}
	return b.List[0]
}

func (c *skCtx) readStmt(as *ast.AssignStmt) (string, bool) {
	if len(as.Rhs) != 1 || (as.Tok != token.ASSIGN && as.Tok != token.DEFINE) {
		return "", false
	}
	prim, cdst, ok := c.primCall(as.Rhs[0])
	if !ok {
		return "", false
	}
	dst, ok := c.lhsDst(as.Lhs, as.Tok)
	if !ok {
		return "", false
	}
	if cdst != "" {
		if dst != "" {
			return "", false
		}
		dst = cdst
	}
	if dst == "" {
		if prim == ".nil" || prim == ".skip" {
			return fmt.Sprintf(".read .none %s", prim), true
		}
		return "", false // any other value read and thrown away is not one of the shapes
	}
	if dst == "sz" {
		return fmt.Sprintf(".read .sz %s", prim), true
	}
	return fmt.Sprintf(".read %s %s", fld(dst), prim), true
}

func natLit(e ast.Expr) (string, bool) {
	bl, ok := e.(*ast.BasicLit)
	if !ok || bl.Kind != token.INT {
		return "", false
	}
	if _, err := strconv.ParseUint(bl.Value, 10, 32); err != nil {
		return "", false
	}
	return bl.Value, true
}

func szCmp(e ast.Expr, op token.Token) (string, bool) {
	be, ok := e.(*ast.BinaryExpr)
	if !ok || be.Op != op || !isSzVar(be.X) {
		return "", false
	}
	return natLit(be.Y)
}

func (c *skCtx) cond(e ast.Expr) (string, bool) {
	if v, ok := szCmp(e, token.EQL); ok {
		return "(.szEq " + v + ")", true
	}
	if be, ok := e.(*ast.BinaryExpr); ok && be.Op == token.LAND {
		a, ok1 := szCmp(be.X, token.NEQ)
		b, ok2 := szCmp(be.Y, token.NEQ)
		if ok1 && ok2 {
			return "(.szNotIn " + a + " " + b + ")", true
		}
	}
	if v, ok := szCmp(e, token.NEQ); ok {
		return "(.szNe " + v + ")", true
	}
	if c.errCtx && isErrNotNil(e) {
		return ".nextErr", true
	}
	return "", false
}

func isTNil(e ast.Expr) bool {
	be, ok := e.(*ast.BinaryExpr)
	return ok && be.Op == token.EQL && isIdent(be.X, "t") && isSel(be.Y, "msgp", "NilType")
}

func (c *skCtx) block(ss []ast.Stmt) []string {
	var out []string
	for i := 0; i < len(ss); i++ {
		s := ss[i]
		switch st := s.(type) {
		case *ast.DeclStmt:
			gd, ok := st.Decl.(*ast.GenDecl)
			plain := ok && gd.Tok == token.VAR
			if plain {
				for _, sp := range gd.Specs {
					if vs, isVs := sp.(*ast.ValueSpec); !isVs || len(vs.Values) != 0 {
						plain = false
					}
				}
			}
			if !plain {
				out = append(out, c.unknown(s))
			}
		case *ast.AssignStmt:
			if len(st.Lhs) == 1 && len(st.Rhs) == 1 && isIdent(st.Lhs[0], "_") && isIdent(st.Rhs[0], "field") {
				continue // `_ = field`: keeps the compiler quiet about an unused variable
			}
			// x, err := prim(); if err != nil { return …err… }
			if r, ok := c.readStmt(st); ok && i+1 < len(ss) {
				if nx, isIf := ss[i+1].(*ast.IfStmt); isIf && nx.Init == nil && nx.Else == nil && isErrNotNil(nx.Cond) && c.errBody(nx.Body) {
					out = append(out, r)
					i++
					continue
				}
			}
			if c.named && len(st.Lhs) == 1 && len(st.Rhs) == 1 && st.Tok == token.ASSIGN && i+1 < len(ss) {
				if r, isR := ss[i+1].(*ast.ReturnStmt); isR && len(r.Results) == 0 {
					// err = msgp.ArrayError{…}; return
					if cl, isCl := st.Rhs[0].(*ast.CompositeLit); isCl && isIdent(st.Lhs[0], "err") && isSel(cl.Type, "msgp", "ArrayError") {
						out = append(out, ".retErr")
						i++
						continue
					}
					// o = bts; return   (the last two statements: every err was checked, so err is nil)
					if !c.stream && c.top && i+2 == len(ss) && isIdent(st.Lhs[0], c.resName) && isIdent(st.Rhs[0], c.in) {
						out = append(out, ".retOk")
						i++
						continue
					}
				}
			}
			// recv.Field = nil | &MessageOptions{} | EntryList{}
			if len(st.Lhs) == 1 && len(st.Rhs) == 1 && st.Tok == token.ASSIGN {
				if f, ok := c.recvField(st.Lhs[0]); ok {
					rhs := c.src(st.Rhs[0])
					v := "(.other " + leanStr(rhs) + ")"
					switch rhs {
					case "nil":
						v = ".nil"
					case "&MessageOptions{}":
						v = ".newOptions"
					case "EntryList{}":
						v = ".emptyEntryList"
					case "new(int)":
						v = ".newInt"
					case "new(HeloOpts)":
						v = ".newHeloOpts"
					}
					out = append(out, fmt.Sprintf(".set %s %s", fld(f), v))
					continue
				}
			}
			out = append(out, c.unknown(s))
		case *ast.RangeStmt:
			// for i := range *z { … }: the body runs once per element, in order
			if c.listLvl && c.top && st.Value == nil && st.Tok == token.DEFINE && c.isRecvList(st.X) {
				if id, isId := st.Key.(*ast.Ident); isId {
					c2 := *c.inner()
					c2.elemIdx = id.Name
					out = append(out, ".forRange ["+strings.Join(c2.block(st.Body.List), ", ")+"]")
					continue
				}
			}
			out = append(out, c.unknown(s))
		case *ast.IfStmt:
			if c.listLvl && c.top && c.isResize(st) {
				out = append(out, ".resize")
				continue
			}
			if st.Else != nil {
				// if msgp.IsNil(bts) { … } else { … } / if dc.IsNil() { … } else { … }
				eb, isBlock := st.Else.(*ast.BlockStmt)
				call, isCall := st.Cond.(*ast.CallExpr)
				isNilTest := isCall && ((!c.stream && isSel(call.Fun, "msgp", "IsNil") && len(call.Args) == 1 && isIdent(call.Args[0], c.in)) ||
					(c.stream && isSel(call.Fun, c.in, "IsNil") && len(call.Args) == 0))
				if st.Init == nil && isBlock && isNilTest {
					out = append(out, ".iteElse .nextNil ["+strings.Join(c.inner().block(st.Body.List), ", ")+"] ["+strings.Join(c.inner().block(eb.List), ", ")+"]")
					continue
				}
				out = append(out, c.unknown(s))
				continue
			}
			if be, isBe := st.Cond.(*ast.BinaryExpr); isBe && st.Init == nil && be.Op == token.EQL && isIdent(be.Y, "nil") {
				if f, isF := c.recvField(be.X); isF && strings.HasPrefix(strings.TrimSpace(c.ftypes[f]), "*") {
					out = append(out, ".ite (.fieldNil "+fld(f)+") ["+strings.Join(c.inner().block(st.Body.List), ", ")+"]")
					continue
				}
			}
			if as, ok := st.Init.(*ast.AssignStmt); ok {
				// if dst, bits, err = prim(bits); err != nil { return bits, …err… }
				if r, isRead := c.readStmt(as); isRead && isErrNotNil(st.Cond) && c.errBody(st.Body) {
					out = append(out, r)
					continue
				}
				// the look at the next type
				if len(as.Rhs) == 1 && as.Tok == token.DEFINE {
					call, isCall := as.Rhs[0].(*ast.CallExpr)
					if isCall {
						sliceNT := !c.stream && isSel(call.Fun, "msgp", "NextType") && len(call.Args) == 1 && isIdent(call.Args[0], c.in) &&
							len(as.Lhs) == 1 && isIdent(as.Lhs[0], "t")
						streamNT := c.stream && isSel(call.Fun, c.in, "NextType") && len(call.Args) == 0 && len(as.Lhs) == 2 && isIdent(as.Lhs[0], "t")
						if (sliceNT || (streamNT && isIdent(as.Lhs[1], "_"))) && isTNil(st.Cond) {
							out = append(out, ".ite .nextNil ["+strings.Join(c.inner().block(st.Body.List), ", ")+"]")
							continue
						}
						if streamNT && isIdent(as.Lhs[1], "err") {
							if be, isBe := st.Cond.(*ast.BinaryExpr); isBe && be.Op == token.LOR && isTNil(be.X) && isErrNotNil(be.Y) {
								c2 := *c.inner()
								c2.errCtx = true
								out = append(out, ".ite .nextNilOrErr ["+strings.Join(c2.block(st.Body.List), ", ")+"]")
								continue
							}
						}
					}
				}
				out = append(out, c.unknown(s))
				continue
			}
			if st.Init != nil {
				out = append(out, c.unknown(s))
				continue
			}
			if cd, ok := c.cond(st.Cond); ok {
				out = append(out, ".ite "+cd+" ["+strings.Join(c.inner().block(st.Body.List), ", ")+"]")
				continue
			}
			out = append(out, c.unknown(s))
		case *ast.ForStmt:
			out = append(out, c.mapLoop(st))
		case *ast.ReturnStmt:
			c2 := *c
			c2.last = i == len(ss)-1
			out = append(out, c2.ret(st))
		default:
			out = append(out, c.unknown(s))
		}
	}
	return out
}

// mapLoop: `for zbN > 0 { zbN--; field, [bts,] err = <map key>; <check>; switch msgp.UnsafeString(field) { case "k": …; default: … } }`
func (c *skCtx) mapLoop(f *ast.ForStmt) string {
	cond, ok := f.Cond.(*ast.BinaryExpr)
	if f.Init != nil || f.Post != nil || !ok || cond.Op != token.GTR || !isSzVar(cond.X) || len(f.Body.List) != 4 {
		return c.unknown(f)
	}
	if lit, isLit := cond.Y.(*ast.BasicLit); !isLit || lit.Value != "0" {
		return c.unknown(f)
	}
	cnt := cond.X.(*ast.Ident).Name
	dec, ok := f.Body.List[0].(*ast.IncDecStmt)
	if !ok || dec.Tok != token.DEC || !isIdent(dec.X, cnt) {
		return c.unknown(f)
	}
	key, ok := f.Body.List[1].(*ast.AssignStmt)
	if !ok || len(key.Rhs) != 1 || key.Tok != token.ASSIGN || !isIdent(key.Lhs[0], "field") || !isIdent(key.Lhs[len(key.Lhs)-1], "err") {
		return c.unknown(f)
	}
	kc, ok := key.Rhs[0].(*ast.CallExpr)
	if !ok {
		return c.unknown(f)
	}
	if c.stream {
		if len(key.Lhs) != 2 || !isSel(kc.Fun, c.in, "ReadMapKeyPtr") || len(kc.Args) != 0 {
			return c.unknown(f)
		}
	} else if len(key.Lhs) != 3 || !isIdent(key.Lhs[1], c.in) || !isSel(kc.Fun, "msgp", "ReadMapKeyZC") || len(kc.Args) != 1 || !isIdent(kc.Args[0], c.in) {
		return c.unknown(f)
	}
	chk, ok := f.Body.List[2].(*ast.IfStmt)
	if !ok || chk.Init != nil || chk.Else != nil || !isErrNotNil(chk.Cond) || !c.errBody(chk.Body) {
		return c.unknown(f)
	}
	sw, ok := f.Body.List[3].(*ast.SwitchStmt)
	if !ok || sw.Init != nil {
		return c.unknown(f)
	}
	tag, ok := sw.Tag.(*ast.CallExpr)
	if !ok || !isSel(tag.Fun, "msgp", "UnsafeString") || len(tag.Args) != 1 || !isIdent(tag.Args[0], "field") {
		return c.unknown(f)
	}
	var cases []string
	for i, cl := range sw.Body.List {
		cc := cl.(*ast.CaseClause)
		body := strings.Join(c.inner().block(cc.Body), ", ")
		if cc.List == nil {
			if i != len(sw.Body.List)-1 {
				return c.unknown(f) // a default that is not the last clause
			}
			cases = append(cases, ".dflt ["+body+"]")
			continue
		}
		bl, isBl := cc.List[0].(*ast.BasicLit)
		if len(cc.List) != 1 || !isBl || bl.Kind != token.STRING {
			return c.unknown(f)
		}
		k, err := strconv.Unquote(bl.Value)
		if err != nil {
			return c.unknown(f)
		}
		bs := make([]string, len(k))
		for j := 0; j < len(k); j++ {
			bs[j] = fmt.Sprint(k[j])
		}
		cases = append(cases, fmt.Sprintf(".case [%s] [%s]", strings.Join(bs, ", "), body))
	}
	return ".mapLoop [" + strings.Join(cases, ",\n    ") + "]"
}

func (c *skCtx) ret(r *ast.ReturnStmt) string {
	if c.named && c.stream && c.top && c.last && len(r.Results) == 0 {
		return ".retOk" // `return` with the named result err, which every read above left nil
	}
	want := 2
	if c.stream {
		want = 1
	}
	// return ReadNilBytes(bits) / return dc.ReadNil()
	if len(r.Results) == 1 {
		if prim, dst, ok := c.primCall(r.Results[0]); ok && dst == "" && prim == ".nil" {
			return ".retRead .nil"
		}
	}
	if len(r.Results) != want {
		return c.unknown(r)
	}
	if !c.stream && !isIdent(r.Results[0], c.in) {
		return c.unknown(r)
	}
	last := r.Results[want-1]
	// `return bits, err` at a point where every assignment to err was followed by its check, `return nil`
	if (!c.stream && isIdent(last, "err") && !c.errCtx) || (c.stream && isIdent(last, "nil")) {
		return ".retOk"
	}
	// an error value: msgp.ArrayError{…}; inside the NextType-error branch: err / WrapError(err, …)
	if cl, ok := last.(*ast.CompositeLit); ok && isSel(cl.Type, "msgp", "ArrayError") {
		return ".retErr"
	}
	if c.errCtx && c.returnsErr(r) {
		return ".retErr"
	}
	return c.unknown(r)
}

// ---- encoders ------------------------------------------------------------------------------------------------------

type encCtx struct {
	skCtx
	acc string // slice path: the variable the encoding is appended to (`o` / `bits`); stream path: the *msgp.Writer
	par string // slice path: the parameter (`b` for generated code, = acc for hand-written code)
}

var zbLen = regexp.MustCompile(`^zb[0-9]+Len$`)
var zbMask = regexp.MustCompile(`^zb[0-9]+Mask$`)

func (c *encCtx) szName(e ast.Expr) bool {
	id, ok := e.(*ast.Ident)
	return ok && (id.Name == "sz" || id.Name == "size" || zbLen.MatchString(id.Name))
}

func isMaskVar(e ast.Expr) bool {
	id, ok := e.(*ast.Ident)
	return ok && zbMask.MatchString(id.Name)
}

// a literal with exactly one bit set: the interpreter keeps the mask as the list of such bits
func oneBit(e ast.Expr) (string, bool) {
	v, ok := smallLit(e)
	switch v {
	case "1", "2", "4", "8", "16", "32", "64", "128":
		return v, ok
	}
	return "", false
}

func smallLit(e ast.Expr) (string, bool) {
	bl, ok := e.(*ast.BasicLit)
	if !ok || bl.Kind != token.INT {
		return "", false
	}
	v, err := strconv.ParseUint(bl.Value, 0, 8)
	if err != nil {
		return "", false
	}
	return fmt.Sprint(v), true
}

// 0x80 | uint8(zbLen)
func (c *encCtx) orSz(e ast.Expr) (string, bool) {
	be, ok := e.(*ast.BinaryExpr)
	if !ok || be.Op != token.OR {
		return "", false
	}
	base, ok := smallLit(be.X)
	if !ok || base != "128" { // the fixmap header 0x80: with a count ≤ 15 (three fields here) `|` is `+`, which is how it is interpreted
		return "", false
	}
	cv, ok := be.Y.(*ast.CallExpr)
	if !ok || !isIdent(cv.Fun, "uint8") || len(cv.Args) != 1 || !c.szName(cv.Args[0]) {
		return "", false
	}
	return base, true
}

// the body of an error check: `{ return }`, `{ err = msgp.WrapError(err, …); return }`, `{ return [acc,] err|WrapError(err,…) }`
func (c *encCtx) isErrCheck(s ast.Stmt) bool {
	ifs, ok := s.(*ast.IfStmt)
	if !ok || ifs.Init != nil || ifs.Else != nil || !isErrNotNil(ifs.Cond) {
		return false
	}
	l := ifs.Body.List
	if len(l) == 2 {
		as, isAs := l[0].(*ast.AssignStmt)
		if !isAs || len(as.Lhs) != 1 || len(as.Rhs) != 1 || !isIdent(as.Lhs[0], "err") {
			return false
		}
		call, isCall := as.Rhs[0].(*ast.CallExpr)
		if !isCall || !isSel(call.Fun, "msgp", "WrapError") || len(call.Args) < 1 || !isIdent(call.Args[0], "err") {
			return false
		}
		l = l[1:]
	}
	if len(l) != 1 {
		return false
	}
	r, isR := l[0].(*ast.ReturnStmt)
	if !isR {
		return false
	}
	if len(r.Results) == 0 {
		return true // named results: o, err as they are
	}
	if c.stream {
		return c.returnsErr(r)
	}
	if len(r.Results) != 2 || !isIdent(r.Results[0], c.acc) {
		return false
	}
	last := r.Results[1]
	if isIdent(last, "err") {
		return true
	}
	call, isCall := last.(*ast.CallExpr)
	return isCall && isSel(call.Fun, "msgp", "WrapError") && len(call.Args) >= 1 && isIdent(call.Args[0], "err")
}

// encCall: the right-hand side of an append / write.  kind: "put" (prim, field), "nil", "hdr", "raw" (byte)
func (c *encCtx) encCall(e ast.Expr) (kind, prim, field string, fallible, ok bool) {
	call, isCall := e.(*ast.CallExpr)
	if !isCall {
		return
	}
	byteLits := func(as []ast.Expr) (string, bool) {
		var vs []string
		for _, a := range as {
			bl, isBl := a.(*ast.BasicLit)
			if !isBl || bl.Kind != token.INT {
				return "", false
			}
			v, err := strconv.ParseUint(bl.Value, 0, 8)
			if err != nil {
				return "", false
			}
			vs = append(vs, fmt.Sprint(v))
		}
		return "[" + strings.Join(vs, ", ") + "]", len(vs) > 0
	}
	if id, isId := call.Fun.(*ast.Ident); isId && id.Name == "append" && !c.stream {
		if len(call.Args) == 2 && isIdent(call.Args[0], c.acc) {
			if base, good := c.orSz(call.Args[1]); good {
				return "rawor", base, "", false, true
			}
		}
		if len(call.Args) >= 2 && isIdent(call.Args[0], c.acc) && call.Ellipsis == token.NoPos {
			if l, good := byteLits(call.Args[1:]); good {
				return "raw", l, "", false, true
			}
		}
		return
	}
	se, isSe := call.Fun.(*ast.SelectorExpr)
	if !isSe {
		return
	}
	name := se.Sel.Name
	args := call.Args
	if f, isF := c.recvField(se.X); isF { // nested encoder
		want := "MarshalMsg"
		if c.stream {
			want = "EncodeMsg"
		}
		if name != want || len(args) != 1 || !isIdent(args[0], c.acc) {
			return
		}
		switch strings.TrimSpace(c.ftypes[f]) {
		case "*MessageOptions":
			return "put", ".options", f, true, true
		case "EntryList":
			return "put", ".entryList", f, true, true
		}
		return
	}
	var table map[string]string
	if c.stream {
		if !isIdent(se.X, c.acc) {
			return
		}
		table = map[string]string{"WriteString": ".str", "WriteInt64": ".int64", "WriteIntf": ".intf", "WriteExtension": ".eventTime",
			"WriteBytes": ".bin", "WriteBool": ".bool", "WriteInt": ".int64", "WriteNil": "nil", "WriteArrayHeader": "hdr", "Append": "raw"}
	} else {
		if !isIdent(se.X, "msgp") || len(args) == 0 || !isIdent(args[0], c.acc) {
			return
		}
		args = args[1:]
		table = map[string]string{"AppendString": ".str", "AppendInt64": ".int64", "AppendIntf": ".intf", "AppendExtension": ".eventTime",
			"AppendBytes": ".bin", "AppendBool": ".bool", "AppendInt": ".int64", "AppendNil": "nil", "AppendArrayHeader": "hdr"}
	}
	p, found := table[name]
	if !found {
		return
	}
	switch p {
	case "nil":
		if len(args) == 0 {
			return "nil", "", "", false, true
		}
		return
	case "raw":
		if len(args) == 1 {
			if base, good := c.orSz(args[0]); good {
				return "rawor", base, "", false, true
			}
		}
		if l, good := byteLits(args); good {
			return "raw", l, "", false, true
		}
		return
	case "hdr": // the count variable, possibly converted: sz / uint32(size)
		if len(args) != 1 {
			return
		}
		a := args[0]
		if cv, isCv := a.(*ast.CallExpr); isCv && isIdent(cv.Fun, "uint32") && len(cv.Args) == 1 {
			a = cv.Args[0]
		}
		if c.szName(a) {
			return "hdr", "", "", false, true
		}
		if ln, isLn := a.(*ast.CallExpr); isLn && c.listLvl && isIdent(ln.Fun, "len") && len(ln.Args) == 1 && c.isRecvList(ln.Args[0]) {
			return "hdrlen", "", "", false, true
		}
		return
	case ".eventTime":
		if len(args) != 1 {
			return
		}
		ue, isU := args[0].(*ast.UnaryExpr)
		if !isU || ue.Op != token.AND {
			return
		}
		f, isF := c.recvField(ue.X)
		if !isF || strings.TrimSpace(c.ftypes[f]) != "EventTime" {
			return
		}
		return "put", p, f, true, true
	default:
		if len(args) != 1 {
			return
		}
		if st, isSt := args[0].(*ast.StarExpr); isSt { // *recv.Field
			if f, isF := c.recvField(st.X); isF && strings.HasPrefix(strings.TrimSpace(c.ftypes[f]), "*") {
				return "put", p, "*" + f, false, true
			}
			return
		}
		f, isF := c.recvField(args[0])
		if !isF {
			return
		}
		return "put", p, f, p == ".intf", true
	}
}

func (c *encCtx) nilTest(e ast.Expr) (field string, eq bool, ok bool) {
	be, isBe := e.(*ast.BinaryExpr)
	if !isBe || (be.Op != token.EQL && be.Op != token.NEQ) || !isIdent(be.Y, "nil") {
		return "", false, false
	}
	f, isF := c.recvField(be.X)
	if !isF || !strings.HasPrefix(strings.TrimSpace(c.ftypes[f]), "*") {
		return "", false, false
	}
	return f, be.Op == token.EQL, true
}

func (c *encCtx) block(ss []ast.Stmt, top bool) []string {
	var out []string
	for i := 0; i < len(ss); i++ {
		s := ss[i]
		switch st := s.(type) {
		case *ast.DeclStmt:
			gd, ok := st.Decl.(*ast.GenDecl)
			plain := ok && gd.Tok == token.VAR
			if plain {
				for _, sp := range gd.Specs {
					if vs, isVs := sp.(*ast.ValueSpec); !isVs || len(vs.Values) != 0 {
						plain = false
					}
				}
			}
			if !plain {
				out = append(out, c.unknown(s))
			}
		case *ast.AssignStmt:
			if len(st.Rhs) != 1 {
				out = append(out, c.unknown(s))
				continue
			}
			if len(st.Lhs) == 1 && isMaskVar(st.Lhs[0]) && st.Tok == token.OR_ASSIGN {
				if v, ok := oneBit(st.Rhs[0]); ok {
					out = append(out, ".orMask "+v)
					continue
				}
			}
			// sz = N / size := N / zb0001Len := uint32(N)
			if len(st.Lhs) == 1 && c.szName(st.Lhs[0]) {
				rhs := st.Rhs[0]
				if cv, isCv := rhs.(*ast.CallExpr); isCv && isIdent(cv.Fun, "uint32") && len(cv.Args) == 1 {
					rhs = cv.Args[0]
				}
				if v, ok := natLit(rhs); ok && len(v) <= 2 && v <= "15" || ok && len(v) == 1 {
					out = append(out, ".setSz "+v)
					continue
				}
				out = append(out, c.unknown(s))
				continue
			}
			// o = msgp.Require(b, z.Msgsize())
			if !c.stream && len(st.Lhs) == 1 && isIdent(st.Lhs[0], c.acc) && st.Tok == token.ASSIGN {
				if call, isCall := st.Rhs[0].(*ast.CallExpr); isCall && isSel(call.Fun, "msgp", "Require") && len(call.Args) == 2 && isIdent(call.Args[0], c.par) {
					if sz, isSz := call.Args[1].(*ast.CallExpr); isSz && len(sz.Args) == 0 {
						if se, isSe := sz.Fun.(*ast.SelectorExpr); isSe && isIdent(se.X, c.recv) && se.Sel.Name == "Msgsize" {
							out = append(out, ".require")
							continue
						}
					}
				}
			}
			kind, prim, field, fallible, ok := c.encCall(st.Rhs[0])
			if !ok {
				out = append(out, c.unknown(s))
				continue
			}
			// left-hand sides: slice: acc [, err]; stream: err
			hasErr := false
			lhsOK := false
			if c.stream {
				lhsOK = len(st.Lhs) == 1 && isIdent(st.Lhs[0], "err")
				hasErr = true
			} else if len(st.Lhs) == 1 {
				lhsOK = isIdent(st.Lhs[0], c.acc) && st.Tok == token.ASSIGN
			} else if len(st.Lhs) == 2 {
				lhsOK = isIdent(st.Lhs[0], c.acc) && isIdent(st.Lhs[1], "err") && st.Tok == token.ASSIGN
				hasErr = true
			}
			if !lhsOK || (!c.stream && hasErr != fallible) {
				out = append(out, c.unknown(s))
				continue
			}
			chk := ".noerr"
			if hasErr {
				if i+1 < len(ss) && c.isErrCheck(ss[i+1]) {
					chk = ".checked"
					i++
				} else if c.stream {
					out = append(out, c.unknown(s)) // a write whose error is not looked at
					continue
				} else {
					chk = ".unchecked"
				}
			}
			switch kind {
			case "rawor":
				out = append(out, ".rawOrSz "+prim)
			case "raw":
				out = append(out, ".raw "+prim)
			case "nil":
				out = append(out, ".putNil")
			case "hdr":
				out = append(out, ".hdrSz")
			case "hdrlen":
				out = append(out, ".hdrLen")
			case "put":
				out = append(out, fmt.Sprintf(".put %s %s %s", prim, fld(field), chk))
			}
		case *ast.IfStmt:
			if st.Init != nil {
				out = append(out, c.unknown(s))
				continue
			}
			if f, eq, ok := c.nilTest(st.Cond); ok {
				els := []string{}
				if st.Else != nil {
					eb, isBlock := st.Else.(*ast.BlockStmt)
					if !isBlock {
						out = append(out, c.unknown(s))
						continue
					}
					els = c.block(eb.List, false)
				}
				ctor := ".ifNotNil"
				if eq {
					ctor = ".ifNil"
				}
				out = append(out, fmt.Sprintf("%s %s [%s] [%s]", ctor, fld(f), strings.Join(c.block(st.Body.List, false), ", "), strings.Join(els, ", ")))
				continue
			}
			if be, isBe := st.Cond.(*ast.BinaryExpr); isBe && be.Op == token.EQL && st.Else == nil {
				// recv.F == ""
				if f, isF := c.recvField(be.X); isF {
					if bl, isBl := be.Y.(*ast.BasicLit); isBl && bl.Kind == token.STRING && bl.Value == `""` && strings.TrimSpace(c.ftypes[f]) == "string" {
						out = append(out, fmt.Sprintf(".ifEmpty %s [%s]", fld(f), strings.Join(c.block(st.Body.List, false), ", ")))
						continue
					}
				}
				// (zbMask & 0x1) == 0
				x := be.X
				if pe, isPe := x.(*ast.ParenExpr); isPe {
					x = pe.X
				}
				if and, isAnd := x.(*ast.BinaryExpr); isAnd && and.Op == token.AND && isMaskVar(and.X) {
					bit, okBit := oneBit(and.Y)
					if zero, isZ := be.Y.(*ast.BasicLit); okBit && isZ && zero.Value == "0" {
						out = append(out, fmt.Sprintf(".ifMaskClear %s [%s]", bit, strings.Join(c.block(st.Body.List, false), ", ")))
						continue
					}
				}
			}
			if be, isBe := st.Cond.(*ast.BinaryExpr); isBe && be.Op == token.EQL && c.szName(be.X) && st.Else == nil {
				if v, ok := natLit(be.Y); ok {
					out = append(out, fmt.Sprintf(".ifSzEq %s [%s]", v, strings.Join(c.block(st.Body.List, false), ", ")))
					continue
				}
			}
			out = append(out, c.unknown(s))
		case *ast.IncDecStmt:
			if st.Tok == token.DEC && c.szName(st.X) {
				out = append(out, ".decSz")
				continue
			}
			out = append(out, c.unknown(s))
		case *ast.RangeStmt:
			if c.listLvl && top && st.Value == nil && st.Tok == token.DEFINE && c.isRecvList(st.X) {
				if id, isId := st.Key.(*ast.Ident); isId {
					c2 := *c
					c2.elemIdx = id.Name
					out = append(out, ".forRange ["+strings.Join(c2.block(st.Body.List, false), ", ")+"]")
					continue
				}
			}
			out = append(out, c.unknown(s))
		case *ast.ReturnStmt:
			// `return` (named results), `return bits, err`, `return nil`: the accumulated bytes and the current err.
			// `return nil` is the same when every write was checked, which the stream rules above guarantee.
			good := len(st.Results) == 0 ||
				(!c.stream && len(st.Results) == 2 && isIdent(st.Results[0], c.acc) && isIdent(st.Results[1], "err")) ||
				(c.stream && len(st.Results) == 1 && (isIdent(st.Results[0], "nil") || isIdent(st.Results[0], "err")))
			if good && top && i == len(ss)-1 {
				out = append(out, ".ret")
			} else if len(st.Results) == 0 && c.named {
				out = append(out, ".ret") // named results: the bytes so far and the current err, from anywhere
			} else {
				out = append(out, c.unknown(s))
			}
		default:
			out = append(out, c.unknown(s))
		}
	}
	return out
}

func encoderSkeleton(fset *token.FileSet, repo string, fd *ast.FuncDecl, goName, m string, ft map[string]string) []string {
	if fd == nil || fd.Body == nil || fd.Type.Params == nil || len(fd.Type.Params.List) != 1 || len(fd.Type.Params.List[0].Names) != 1 {
		return []string{".unknown \"method not found\""}
	}
	par := fd.Type.Params.List[0].Names[0].Name
	c := &encCtx{skCtx: skCtx{fset: fset, recv: recvNameOf(fd), in: par, stream: m == "EncodeMsg", ftypes: ft, deep: true}, acc: par, par: par}
	// generated code: named results (o []byte, err error); the encoding is appended to `o`
	if fd.Type.Results != nil && len(fd.Type.Results.List) >= 1 && len(fd.Type.Results.List[0].Names) == 1 {
		c.named = true
		if m == "MarshalMsg" {
			c.acc = fd.Type.Results.List[0].Names[0].Name
		}
	}
	return c.block(fd.Body.List, true)
}

func structFields(files []*ast.File, fset *token.FileSet, typ string) map[string]string {
	res := map[string]string{}
	for _, f := range files {
		for _, d := range f.Decls {
			gd, ok := d.(*ast.GenDecl)
			if !ok || gd.Tok != token.TYPE {
				continue
			}
			for _, sp := range gd.Specs {
				ts := sp.(*ast.TypeSpec)
				st, isSt := ts.Type.(*ast.StructType)
				if ts.Name.Name != typ || !isSt {
					continue
				}
				for _, fl := range st.Fields.List {
					var b strings.Builder
					printer.Fprint(&b, fset, fl.Type)
					for _, n := range fl.Names {
						res[n.Name] = b.String()
					}
				}
			}
		}
	}
	return res
}

// codecSkeletons renders Gen/Codec.lean
func codecSkeletons(repo string) string {
	fset := token.NewFileSet()
	methods, _, files := parseDir(fset, filepath.Join(repo, "fluent/protocol"))
	var b strings.Builder
	b.WriteString("import FluentVerif.Sk.Enc\n/-! GENERATED by /verif/translator (codec.go) from /repo's working tree — do not edit.  Regenerated on every check run.\nThe bodies of the hand-written decoders of fluent/protocol, statement by statement. -/\nnamespace FV.Gen.Codec\nopen FV.Sk\n\n")
	for _, ty := range []struct{ goName, lean string }{{"Message", "Message"}, {"MessageExt", "MessageExt"},
		{"ForwardMessage", "Forward"}, {"PackedForwardMessage", "Packed"}} {
		ft := structFields(files, fset, ty.goName)
		for _, m := range []string{"UnmarshalMsg", "DecodeMsg"} {
			name := ty.lean + "_" + m
			fd := methods[ty.goName+"."+m]
			if fd == nil || fd.Body == nil || fd.Type.Params == nil || len(fd.Type.Params.List) != 1 || len(fd.Type.Params.List[0].Names) != 1 {
				fmt.Fprintf(&b, "/-- %s.%s: not found in the source (or not with one parameter) -/\ndef %s : List Stmt := [.unknown \"method not found\"]\n\n", ty.goName, m, name)
				continue
			}
			c := &skCtx{fset: fset, recv: recvNameOf(fd), in: fd.Type.Params.List[0].Names[0].Name, stream: m == "DecodeMsg", ftypes: ft, top: true}
			body := c.block(fd.Body.List)
			fmt.Fprintf(&b, "/-- `(*%s).%s`, %s -/\ndef %s : List Stmt := [\n  %s]\n\n", ty.goName, m,
				fset.Position(fd.Pos()).String()[len(repo)+1:], name, strings.Join(body, ",\n  "))
		}
	}
	b.WriteString("/-! ### msgp-generated tuple decoders (named results, bare returns) -/\n\n")
	for _, ty := range []string{"Entry", "EntryExt", "Ping", "Pong", "MessageOptions", "AckMessage", "HeloOpts", "Helo"} {
		ft := structFields(files, fset, ty)
		for _, m := range []string{"UnmarshalMsg", "DecodeMsg"} {
			name := ty + "_" + m
			fd := methods[ty+"."+m]
			if fd == nil || fd.Body == nil || fd.Type.Params == nil || len(fd.Type.Params.List) != 1 || len(fd.Type.Params.List[0].Names) != 1 ||
				fd.Type.Results == nil || len(fd.Type.Results.List) == 0 || len(fd.Type.Results.List[0].Names) != 1 {
				fmt.Fprintf(&b, "/-- %s.%s: not found in the source (or not in the generated shape) -/\ndef %s : List Stmt := [.unknown \"method not found\"]\n\n", ty, m, name)
				continue
			}
			c := &skCtx{fset: fset, recv: recvNameOf(fd), in: fd.Type.Params.List[0].Names[0].Name, stream: m == "DecodeMsg", ftypes: ft, top: true,
				named: true, resName: fd.Type.Results.List[0].Names[0].Name, deep: true}
			body := c.block(fd.Body.List)
			fmt.Fprintf(&b, "/-- `(*%s).%s`, %s -/\ndef %s : List Stmt := [\n  %s]\n\n", ty, m,
				fset.Position(fd.Pos()).String()[len(repo)+1:], name, strings.Join(body, ",\n  "))
		}
	}
	b.WriteString("/-! ### EntryList decoders: header, resize, one pass of the body per element -/\n\n")
	for _, m := range []string{"UnmarshalMsg", "DecodeMsg"} {
		name := "EntryList_" + m
		fd := methods["EntryList."+m]
		if fd == nil || fd.Body == nil || fd.Type.Params == nil || len(fd.Type.Params.List) != 1 || len(fd.Type.Params.List[0].Names) != 1 ||
			fd.Type.Results == nil || len(fd.Type.Results.List) == 0 || len(fd.Type.Results.List[0].Names) != 1 {
			fmt.Fprintf(&b, "def %s : List LStmt := [.plain (.unknown \"method not found\")]\n\n", name)
			continue
		}
		c := &skCtx{fset: fset, recv: recvNameOf(fd), in: fd.Type.Params.List[0].Names[0].Name, stream: m == "DecodeMsg",
			ftypes: structFields(files, fset, "EntryExt"), top: true, named: true, resName: fd.Type.Results.List[0].Names[0].Name, listLvl: true}
		var body []string
		for _, st := range c.block(fd.Body.List) {
			if st == ".resize" || strings.HasPrefix(st, ".forRange ") {
				body = append(body, st)
			} else {
				body = append(body, ".plain ("+st+")")
			}
		}
		fmt.Fprintf(&b, "/-- `(*EntryList).%s`, %s -/\ndef %s : List LStmt := [\n  %s]\n\n", m,
			fset.Position(fd.Pos()).String()[len(repo)+1:], name, strings.Join(body, ",\n  "))
	}
	b.WriteString("/-! ### encoders -/\n\n")
	for _, ty := range []struct{ goName, lean string }{{"Message", "Message"}, {"MessageExt", "MessageExt"},
		{"ForwardMessage", "Forward"}, {"PackedForwardMessage", "Packed"}} {
		ft := structFields(files, fset, ty.goName)
		for _, m := range []string{"MarshalMsg", "EncodeMsg"} {
			fd := methods[ty.goName+"."+m]
			where := "not found"
			if fd != nil {
				where = fset.Position(fd.Pos()).String()[len(repo)+1:]
			}
			body := encoderSkeleton(fset, repo, fd, ty.goName, m, ft)
			fmt.Fprintf(&b, "/-- `(*%s).%s`, %s -/\ndef %s_%s : List EStmt := [\n  %s]\n\n", ty.goName, m, where, ty.lean, m, strings.Join(body, ",\n  "))
		}
	}
	for _, ty := range []struct{ goName, lean string }{{"Entry", "Entry"}, {"EntryExt", "EntryExt"}, {"Ping", "Ping"}, {"Pong", "Pong"},
		{"AckMessage", "Ack"}, {"HeloOpts", "HeloOpts"}, {"Helo", "Helo"}, {"MessageOptions", "MessageOptions"}} {
		ft := structFields(files, fset, ty.goName)
		for _, m := range []string{"MarshalMsg", "EncodeMsg"} {
			fd := methods[ty.goName+"."+m]
			where := "not found"
			if fd != nil {
				where = fset.Position(fd.Pos()).String()[len(repo)+1:]
			}
			body := encoderSkeleton(fset, repo, fd, ty.goName, m, ft)
			fmt.Fprintf(&b, "/-- `(%s).%s`, %s -/\ndef %s_%s : List EStmt := [\n  %s]\n\n", ty.goName, m, where, ty.lean, m, strings.Join(body, ",\n  "))
		}
	}
	for _, m := range []string{"MarshalMsg", "EncodeMsg"} {
		fd := methods["EntryList."+m]
		name := "EntryList_" + m
		if fd == nil || fd.Body == nil || fd.Type.Params == nil || len(fd.Type.Params.List) != 1 || len(fd.Type.Params.List[0].Names) != 1 {
			fmt.Fprintf(&b, "def %s : List LEStmt := [.plain (.unknown \"method not found\")]\n\n", name)
			continue
		}
		par := fd.Type.Params.List[0].Names[0].Name
		c := &encCtx{skCtx: skCtx{fset: fset, recv: recvNameOf(fd), in: par, stream: m == "EncodeMsg", ftypes: structFields(files, fset, "EntryExt"), listLvl: true}, acc: par, par: par}
		if m == "MarshalMsg" && fd.Type.Results != nil && len(fd.Type.Results.List) >= 1 && len(fd.Type.Results.List[0].Names) == 1 {
			c.acc = fd.Type.Results.List[0].Names[0].Name
		}
		var body []string
		for _, st := range c.block(fd.Body.List, true) {
			if st == ".hdrLen" || strings.HasPrefix(st, ".forRange ") {
				body = append(body, st)
			} else {
				body = append(body, ".plain ("+st+")")
			}
		}
		fmt.Fprintf(&b, "/-- `(EntryList).%s`, %s -/\ndef %s : List LEStmt := [\n  %s]\n\n", m, fset.Position(fd.Pos()).String()[len(repo)+1:], name,
			strings.Join(body, ",\n  "))
	}
	b.WriteString("end FV.Gen.Codec\n")
	return b.String()
}
