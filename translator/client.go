package main

// Client method skeletons (Gen/Client.lean): the bodies of Client.Send, SendRaw, checkAck and writeAll of fluent/client/client.go,
// statement by statement, in the idiom language of lean/FluentVerif/Sk/Client.lean.  A statement that is not one of the idioms
// becomes `.unknown "<source>"`, which evaluates to a panic, so the equality theorems of Tie/Client.lean fail.

import (
	"fmt"
	"go/ast"
	"go/printer"
	"go/token"
	"path/filepath"
	"strings"
)

type clCtx struct {
	fset     *token.FileSet
	recv     string
	arg      string // the method's parameter (e / m / chunk / conn, b)
	namedErr bool   // the function's result is the named `err`
}

func (c *clCtx) src(n ast.Node) string {
	var b strings.Builder
	printer.Fprint(&b, c.fset, n)
	s := strings.Join(strings.Fields(b.String()), " ")
	if len(s) > 160 {
		s = s[:160] + "…"
	}
	return s
}

func (c *clCtx) unknown(n ast.Node) string { return ".unknown " + leanStr(c.src(n)) }

// c.<a>.<b>…
func (c *clCtx) isPath(e ast.Expr, path ...string) bool {
	for i := len(path) - 1; i >= 0; i-- {
		se, ok := e.(*ast.SelectorExpr)
		if !ok || se.Sel.Name != path[i] {
			return false
		}
		e = se.X
	}
	return isIdent(e, c.recv)
}

func callOf(e ast.Expr) (*ast.CallExpr, bool) {
	call, ok := e.(*ast.CallExpr)
	return call, ok
}

// return errors.New(…) / fmt.Errorf(…)
func isNewErr(e ast.Expr) bool {
	call, ok := callOf(e)
	return ok && (isSel(call.Fun, "errors", "New") || isSel(call.Fun, "fmt", "Errorf"))
}

func (c *clCtx) ret(r *ast.ReturnStmt) string {
	if len(r.Results) == 0 && c.namedErr {
		return ".retNamedErr"
	}
	if len(r.Results) != 1 {
		return c.unknown(r)
	}
	x := r.Results[0]
	switch {
	case isNewErr(x):
		return ".retErrNew"
	case isIdent(x, "err"):
		return ".retErrVar"
	case isIdent(x, "nil"):
		return ".retNil"
	}
	if c.src(x) == c.recv+".session != nil && "+c.recv+".session.TransportPhase" {
		return ".retTransportPhase"
	}
	if call, ok := callOf(x); ok {
		if c.isPath(call.Fun, "connect") && len(call.Args) == 0 {
			return ".retConnect"
		}
		if c.isPath(call.Fun, "disconnect") && len(call.Args) == 0 {
			return ".retDisconnect"
		}
		// return c.checkAck(chunk)
		if c.isPath(call.Fun, "checkAck") && len(call.Args) == 1 && isIdent(call.Args[0], "chunk") {
			return ".retCheckAck"
		}
		// return writeAll(c.session.Connection, m)
		if src, good := c.writeAllCall(call); good {
			return ".retWriteAll " + src
		}
	}
	return c.unknown(r)
}

// writeAll(c.session.Connection, buf.Bytes() | <param>)
func (c *clCtx) writeAllCall(call *ast.CallExpr) (string, bool) {
	if !isIdent(call.Fun, "writeAll") || len(call.Args) != 2 || !c.isPath(call.Args[0], "session", "Connection") {
		return "", false
	}
	if isIdent(call.Args[1], c.arg) && c.arg != "" {
		return ".arg", true
	}
	if bc, ok := callOf(call.Args[1]); ok && isSel(bc.Fun, "buf", "Bytes") && len(bc.Args) == 0 {
		return ".buf", true
	}
	return "", false
}

// idioms that span several statements, by their source text
var seqIdioms = []struct {
	lean string
	src  []string
}{
	{".dial", []string{"conn, err := R.New()", "if err != nil { return err }"}},
	{".readHelo", []string{"var helo protocol.Helo", "r := msgp.NewReader(R.session.Connection)", "err := helo.DecodeMsg(r)", "if err != nil { return err }"}},
	{".drawSalt", []string{"salt := make([]byte, 16)", "_, err = rand.Read(salt)", "if err != nil { return err }"}},
	{".newPing", []string{"ping, err := protocol.NewPing(R.Hostname, R.AuthInfo.SharedKey, salt, helo.Options.Nonce)", "if err != nil { return err }"}},
	{".encodePing", []string{"err = msgp.Encode(R.session.Connection, ping)", "if err != nil { return err }"}},
	{".readPong", []string{"var pong protocol.Pong", "err = pong.DecodeMsg(r)", "if err != nil { return err }"}},
	{".validatePong", []string{"if err := protocol.ValidatePongDigest(&pong, R.AuthInfo.SharedKey, helo.Options.Nonce, salt); err != nil { return err }"}},
	{".newSession", []string{"R.session = &Session{Connection: conn}"}},
	{".setTransport", []string{"R.session.TransportPhase = true"}},
	{".closeConn", []string{"err = R.session.Connection.Close()"}},
	{".clearSession", []string{"R.session = nil"}},
	{".disconnectIgnore", []string{"_ = R.disconnect()"}},
}

func (c *clCtx) seqIdiom(ss []ast.Stmt, i int) (string, int) {
	for _, id := range seqIdioms {
		if i+len(id.src) > len(ss) {
			continue
		}
		ok := true
		for j, want := range id.src {
			norm := func(x string) string {
				return strings.NewReplacer(", }", "}", "{ ", "{", " }", "}").Replace(x)
			}
			if norm(c.src(ss[i+j])) != norm(strings.ReplaceAll(want, "R.", c.recv+".")) {
				ok = false
				break
			}
		}
		if ok {
			return id.lean, len(id.src)
		}
	}
	return "", 0
}

func (c *clCtx) block(ss []ast.Stmt) []string {
	var out []string
	for i := 0; i < len(ss); i++ {
		s := ss[i]
		if l, n := c.seqIdiom(ss, i); n > 0 {
			out = append(out, l)
			i += n - 1
			continue
		}
		switch st := s.(type) {
		case *ast.ExprStmt:
			// c.<lock>.Lock() / RLock()
			if call, ok := callOf(st.X); ok && len(call.Args) == 0 {
				if se, isSe := call.Fun.(*ast.SelectorExpr); isSe && (se.Sel.Name == "Lock" || se.Sel.Name == "RLock") {
					if in, isIn := se.X.(*ast.SelectorExpr); isIn && isIdent(in.X, c.recv) {
						out = append(out, fmt.Sprintf(".lock %s %v", leanStr(in.Sel.Name), se.Sel.Name == "RLock"))
						continue
					}
				}
			}
			out = append(out, c.unknown(s))
		case *ast.DeferStmt:
			if se, isSe := st.Call.Fun.(*ast.SelectorExpr); isSe && len(st.Call.Args) == 0 && (se.Sel.Name == "Unlock" || se.Sel.Name == "RUnlock") {
				if in, isIn := se.X.(*ast.SelectorExpr); isIn && isIdent(in.X, c.recv) {
					out = append(out, fmt.Sprintf(".deferUnlock %s %v", leanStr(in.Sel.Name), se.Sel.Name == "RUnlock"))
					continue
				}
			}
			out = append(out, c.unknown(s))
		case *ast.DeclStmt:
			gd, ok := st.Decl.(*ast.GenDecl)
			if !ok || gd.Tok != token.VAR {
				out = append(out, c.unknown(s))
				continue
			}
			txt := c.src(s)
			switch {
			case txt == "var ( chunk string err error )":
				// plain declarations
			case txt == "var buf bytes.Buffer" && i+1 < len(ss):
				// var buf bytes.Buffer; if err = msgp.Encode(&buf, e); err != nil { return err }
				if c.src(ss[i+1]) == "if err = msgp.Encode(&buf, "+c.arg+"); err != nil { return err }" {
					out = append(out, ".encode")
					i++
				} else {
					out = append(out, c.unknown(s))
				}
			case txt == "var ack protocol.AckMessage" && i+1 < len(ss):
				if c.src(ss[i+1]) == "if err := msgp.Decode("+c.recv+".session.Connection, &ack); err != nil { return err }" {
					out = append(out, ".decodeAck")
					i++
				} else {
					out = append(out, c.unknown(s))
				}
			default:
				out = append(out, c.unknown(s))
			}
		case *ast.AssignStmt:
			// n, err := conn.Write(b)
			if c.src(s) == "n, err := conn.Write(b)" {
				out = append(out, ".connWrite")
				continue
			}
			out = append(out, c.unknown(s))
		case *ast.IfStmt:
			if st.Else != nil {
				out = append(out, c.unknown(s))
				continue
			}
			body := func() string { return "[" + strings.Join(c.block(st.Body.List), ", ") + "]" }
			if st.Init == nil {
				if be, ok := st.Cond.(*ast.BinaryExpr); ok {
					switch {
					case be.Op == token.EQL && c.isPath(be.X, "session") && isIdent(be.Y, "nil"):
						out = append(out, ".ifNoSession "+body())
						continue
					case be.Op == token.NEQ && c.isPath(be.X, "session") && isIdent(be.Y, "nil"):
						out = append(out, ".ifSession "+body())
						continue
					case be.Op == token.EQL && c.isPath(be.X, "AuthInfo", "SharedKey") && isIdent(be.Y, "nil"):
						out = append(out, ".ifNoSharedKey "+body())
						continue
					case be.Op == token.EQL && c.src(be.X) == "helo.Options" && isIdent(be.Y, "nil"):
						out = append(out, ".ifHeloNoOptions "+body())
						continue
					case be.Op == token.NEQ && c.isPath(be.X, "Timeout") && c.src(be.Y) == "0":
						out = append(out, ".ifTimeout "+body())
						continue
					case be.Op == token.EQL && isIdent(be.X, "chunk") && c.src(be.Y) == `""`:
						out = append(out, ".ifChunkEmpty "+body())
						continue
					case be.Op == token.NEQ && c.src(be.X) == "ack.Ack" && isIdent(be.Y, "chunk"):
						out = append(out, ".ifAckMismatch "+body())
						continue
					}
					if c.src(s) == "if err == nil && n < len(b) { err = io.ErrShortWrite }" {
						out = append(out, ".shortIsError")
						continue
					}
				}
				if ue, ok := st.Cond.(*ast.UnaryExpr); ok && ue.Op == token.NOT && c.src(ue.X) == "pong.AuthResult" {
					out = append(out, ".ifNotAuthResult "+body())
					continue
				}
				if ue, ok := st.Cond.(*ast.UnaryExpr); ok && ue.Op == token.NOT && c.isPath(ue.X, "session", "TransportPhase") {
					out = append(out, ".ifNotTransport "+body())
					continue
				}
				if c.isPath(st.Cond, "RequireAck") {
					out = append(out, ".ifRequireAck "+body())
					continue
				}
				out = append(out, c.unknown(s))
				continue
			}
			txt := c.src(s)
			switch {
			case txt == "if chunk, err = "+c.arg+".Chunk(); err != nil { return err }":
				out = append(out, ".chunk")
			case txt == "if err := "+c.recv+".session.Connection.SetReadDeadline(time.Now().Add("+c.recv+".Timeout)); err != nil { return err }":
				out = append(out, ".setReadDeadline")
			default:
				// if err = writeAll(c.session.Connection, buf.Bytes()); err != nil || !c.RequireAck { return err }
				if as, ok := st.Init.(*ast.AssignStmt); ok && len(as.Lhs) == 1 && len(as.Rhs) == 1 && isIdent(as.Lhs[0], "err") && as.Tok == token.ASSIGN {
					if call, isCall := callOf(as.Rhs[0]); isCall {
						if src, good := c.writeAllCall(call); good &&
							c.src(st.Cond) == "err != nil || !"+c.recv+".RequireAck" && c.src(st.Body) == "{ return err }" {
							out = append(out, ".writeAllThen "+src)
							continue
						}
					}
				}
				out = append(out, c.unknown(s))
			}
		case *ast.ReturnStmt:
			out = append(out, c.ret(st))
		default:
			out = append(out, c.unknown(s))
		}
	}
	return out
}

func clientSkeletons(repo string) string {
	fset := token.NewFileSet()
	methods, funcs, _ := parseDir(fset, filepath.Join(repo, "fluent/client"))
	var b strings.Builder
	b.WriteString("import FluentVerif.Sk.Client\n/-! GENERATED by /verif/translator (client.go) from /repo's working tree — do not edit.  Regenerated on every check run.\nThe bodies of the sending methods of fluent/client/client.go, statement by statement. -/\nnamespace FV.Gen.Client\nopen FV.Sk.Cl\n\n")
	emit := func(name string, fd *ast.FuncDecl, arg int) {
		if fd == nil || fd.Body == nil {
			fmt.Fprintf(&b, "def %s : List CStmt := [.unknown \"function not found\"]\n\n", name)
			return
		}
		c := &clCtx{fset: fset, recv: recvNameOf(fd)}
		if fd.Type.Results != nil && len(fd.Type.Results.List) == 1 && len(fd.Type.Results.List[0].Names) == 1 && fd.Type.Results.List[0].Names[0].Name == "err" {
			c.namedErr = true
		}
		if fd.Type.Params != nil && arg < len(fd.Type.Params.List) && len(fd.Type.Params.List[arg].Names) == 1 {
			c.arg = fd.Type.Params.List[arg].Names[0].Name
		}
		fmt.Fprintf(&b, "/-- `%s`, %s -/\ndef %s : List CStmt := [\n  %s]\n\n", fd.Name.Name, fset.Position(fd.Pos()).String()[len(repo)+1:], name,
			strings.Join(c.block(fd.Body.List), ",\n  "))
	}
	emit("Client_Send", methods["Client.Send"], 0)
	emit("Client_SendRaw", methods["Client.SendRaw"], 0)
	emit("Client_checkAck", methods["Client.checkAck"], 0)
	emit("writeAll", funcs["writeAll"], 1)
	emit("Client_connect", methods["Client.connect"], 0)
	emit("Client_disconnect", methods["Client.disconnect"], 0)
	emit("Client_Connect", methods["Client.Connect"], 0)
	emit("Client_Disconnect", methods["Client.Disconnect"], 0)
	emit("Client_Reconnect", methods["Client.Reconnect"], 0)
	emit("Client_TransportPhase", methods["Client.TransportPhase"], 0)
	emit("Client_Handshake", methods["Client.Handshake"], 0)
	// the Send* helpers: which constructor each calls, and that its result (and nothing else) goes to Send
	helperFacts := func(recv string) string {
		var rows []string
		for _, h := range []string{"SendMessage", "SendMessageExt", "SendForward", "SendPacked", "SendPackedFromBytes", "SendCompressed", "SendCompressedFromBytes"} {
			fd := methods[recv+"."+h]
			row := fmt.Sprintf("(%s, \"method not found\", false)", leanStr(h))
			if fd != nil && fd.Body != nil && fd.Type.Params != nil {
				c := &clCtx{fset: fset, recv: recvNameOf(fd)}
				var params []string
				for _, f := range fd.Type.Params.List {
					for _, n := range f.Names {
						params = append(params, n.Name)
					}
				}
				args := strings.Join(params, ", ")
				var body []string
				for _, st := range fd.Body.List {
					body = append(body, c.src(st))
				}
				txt := strings.Join(body, " ; ")
				row = fmt.Sprintf("(%s, %s, false)", leanStr(h), leanStr("unknown: "+txt))
				for _, ctor := range []string{"NewMessage", "NewMessageExt", "NewForwardMessage", "NewPackedForwardMessage", "NewPackedForwardMessageFromBytes",
					"NewCompressedPackedForwardMessage", "NewCompressedPackedForwardMessageFromBytes"} {
					if txt == "msg := protocol."+ctor+"("+args+") ; return "+c.recv+".Send(msg)" {
						row = fmt.Sprintf("(%s, %s, false)", leanStr(h), leanStr(ctor))
					}
					if txt == "msg, err := protocol."+ctor+"("+args+") ; if err == nil { err = "+c.recv+".Send(msg) } ; return err" {
						row = fmt.Sprintf("(%s, %s, true)", leanStr(h), leanStr(ctor))
					}
				}
			}
			rows = append(rows, row)
		}
		return "[\n  " + strings.Join(rows, ",\n  ") + "]"
	}
	fmt.Fprintf(&b, "/-- the `Send*` helpers of `Client`: (helper, the constructor it calls with its own arguments, whether the constructor can fail); the message goes\nto `Send` unchanged, and a constructor error is returned without a send -/\ndef clientHelpers : List (String × String × Bool) := %s\n\n", helperFacts("Client"))
	b.WriteString("end FV.Gen.Client\n")
	return b.String()
}
